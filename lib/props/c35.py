# C35 `shfmt -w` replaces files atomically.   Specs: ShfmtWrite (contract + model), ShfmtWriteTrace.
#
#  (M) TLC explores ShfmtWrite (all interleavings of the permitted system calls, crash anywhere) and
#      checks Atomic/Durable/Untouched/NoTemps/ExitOK; every initial state = one scenario vector.
#      Self-tests: InPlace=TRUE must violate Atomic; a completed replacing run must be reachable.
#  (V) every scenario is materialised, the real shfmt (built from the repo's working tree) runs under
#      strace, the log is mapped call-by-call to ShfmtWrite actions and validated by TLC
#      (ShfmtWriteTrace, strict); the abstract file system TLC prints at exit is compared with the
#      real directory.
#  (R) crash points: for selected scenarios the run is repeated once per system call boundary with
#      `strace -e inject=<call>:signal=KILL:when=<n>`; the killed run's own log (prefix + crash) is
#      validated the same way and the directory compared with the spec state after that prefix.
#
# Python only parses strace text, builds directories, runs processes and compares; which calls are
# allowed, what they do to the file system and what the directory must look like come from the spec.
import json, os, shutil, stat, subprocess, time
from concurrent.futures import ThreadPoolExecutor

import vlib
from props import shfmtlib as sl

LEVEL = "fault_enumeration"

# ----------------------------------------------------------------------------------
# strace calls -> events (syntactic mapping only)

PATH1 = {  # name -> (dirfd index or None, path index)
    "openat": (0, 1), "open": (None, 0), "creat": (None, 0),
    "newfstatat": (0, 1), "fstatat64": (0, 1), "statx": (0, 1), "stat": (None, 0), "lstat": (None, 0),
    "access": (None, 0), "faccessat": (0, 1), "faccessat2": (0, 1), "readlink": (None, 0),
    "readlinkat": (0, 1), "statfs": (None, 0), "getxattr": (None, 0), "lgetxattr": (None, 0),
    "listxattr": (None, 0), "llistxattr": (None, 0),
    "chmod": (None, 0), "fchmodat": (0, 1), "fchmodat2": (0, 1),
    "unlink": (None, 0), "unlinkat": (0, 1), "rmdir": (None, 0),
    "mkdir": (None, 0), "mkdirat": (0, 1), "mknod": (None, 0), "mknodat": (0, 1), "truncate": (None, 0),
    "chown": (None, 0), "lchown": (None, 0), "fchownat": (0, 1), "utimensat": (0, 1), "utime": (None, 0),
    "utimes": (None, 0), "setxattr": (None, 0), "lsetxattr": (None, 0), "removexattr": (None, 0),
    "lremovexattr": (None, 0), "chdir": (None, 0),
}
PATH_OBSERVE = {"newfstatat", "fstatat64", "statx", "stat", "lstat", "access", "faccessat", "faccessat2",
                "readlink", "readlinkat", "statfs", "getxattr", "lgetxattr", "listxattr", "llistxattr"}
PATH2 = {"rename": (None, 0, None, 1), "renameat": (0, 1, 2, 3), "renameat2": (0, 1, 2, 3),
         "link": (None, 0, None, 1), "linkat": (0, 1, 2, 3), "symlink": (None, None, None, 1),
         "symlinkat": (None, None, 1, 2)}
FD_OBSERVE = {"read", "pread64", "readv", "preadv", "preadv2", "getdents64", "getdents", "fstat", "fstatfs",
              "ioctl", "flock", "fadvise64", "fgetxattr", "flistxattr", "fcntl"}
FD_OTHER = {"pwrite64", "writev", "pwritev", "pwritev2", "ftruncate", "fallocate", "fchown", "futimens",
            "fsetxattr", "fremovexattr", "sync_file_range", "lseek", "dup", "dup2", "dup3", "sendfile",
            "fchdir"}


class Mapper:
    """Turns the completed calls of one strace log into the event list of ShfmtWriteTrace."""

    def __init__(self, cwd, tmpdir):
        self.cwd, self.tmpdir = cwd, tmpdir
        self.fdpath = {}      # fd -> absolute path, every successful open (for dirfd resolution)
        self.tracked = set()  # fds whose open was emitted as an event
        self.events = []
        self.unsupported = []
        self.main = None
        self.seen_exec = False
        self.ended = False

    def absp(self, dirfd, path):
        if os.path.isabs(path):
            return os.path.normpath(path)
        if dirfd is None or dirfd == "AT_FDCWD":
            base = self.cwd
        else:
            try:
                base = self.fdpath[int(dirfd)]
            except (KeyError, ValueError):
                self.unsupported.append("relative path with unknown dirfd %s" % dirfd)
                base = self.cwd
        return os.path.normpath(os.path.join(base, path))

    def label(self, ap):
        """Name of a path inside the scratch tree, else None."""
        if ap == self.cwd:
            return "."
        if ap.startswith(self.cwd + "/"):
            return os.path.relpath(ap, self.cwd)
        if ap == self.tmpdir:
            return "TMP"
        if ap.startswith(self.tmpdir + "/"):
            return "TMP/" + os.path.relpath(ap, self.tmpdir)
        return None

    def emit(self, c, ev):
        ev["sys"] = c["name"]; ev["start"] = c["start"]
        self.events.append(ev)

    def feed(self, c):
        if self.ended:
            return
        if "special" in c:
            if c["special"] == "killed":
                self.events.append({"call": "crash", "sys": "", "start": -1}); self.ended = True
            elif c["special"] == "exit" and c["tid"] == self.main:
                self.events.append({"call": "exit", "status": c["status"], "sys": "", "start": -1}); self.ended = True
            return
        name, args, ret = c["name"], c["args"], c["ret"]
        if self.main is None:
            self.main = c["tid"]
        if c.get("killed_at_entry") or ret is None:
            return                      # never executed / no result (exit_group)
        ok = ret >= 0 if isinstance(ret, int) else False
        if c.get("err") == "UNPARSED":
            self.unsupported.append("unparsed strace line: " + c.get("raw", "")); return
        if name.startswith("unknown_") or name == "umask":
            self.unsupported.append("system call the tracer cannot decode: " + name); return
        if name == "execve":
            if self.seen_exec:
                self.unsupported.append("execve of another program")
            self.seen_exec = True
            return
        if name in ("clone", "clone3", "fork", "vfork"):
            if ok and not any("CLONE_THREAD" in a for a in args):
                self.unsupported.append("child process created")
            return
        fd0 = None
        if args and args[0].lstrip("-").isdigit():
            fd0 = int(args[0])

        # --- open family
        if name in ("openat", "open", "creat"):
            di, pi = PATH1[name]
            path = sl.unquote(args[pi])
            ap = self.absp(args[di] if di is not None else None, path)
            if name == "creat":
                flags, mode = ["O_WRONLY", "O_CREAT", "O_TRUNC"], int(args[1], 8)
            else:
                flags = args[pi + 1].split("|")
                mode = int(args[pi + 2], 8) if len(args) > pi + 2 else 0
            lab = self.label(ap)
            writing = bool(set(flags) & {"O_WRONLY", "O_RDWR", "O_CREAT", "O_TRUNC", "O_APPEND"})
            if ok:
                self.fdpath[ret] = ap
            if lab is None and not (writing and ok):
                return
            if lab is None:
                lab = "EXT:" + ap
            if not ok:
                self.emit(c, {"call": "observe", "what": name, "path": lab, "failed": c.get("err") or "?"})
                return
            self.tracked.add(ret)
            self.emit(c, {"call": "open", "path": lab, "flags": flags, "mode": mode, "ret": ret})
            return
        if name == "openat2":
            self.unsupported.append("openat2"); return
        if name == "close":
            self.fdpath.pop(fd0, None)
            if fd0 in self.tracked:
                self.tracked.discard(fd0)
                if ok:
                    self.emit(c, {"call": "close", "fd": fd0})
            return
        # --- descriptor calls
        if name == "write":
            if fd0 in self.tracked:
                if ok:
                    self.emit(c, {"call": "write", "fd": fd0, "n": ret})
                else:
                    self.emit(c, {"call": "observe", "what": name, "failed": c.get("err") or "?"})
            return
        if name in ("fsync", "fdatasync"):
            if fd0 in self.tracked:
                self.emit(c, {"call": "fsync", "fd": fd0} if ok else {"call": "observe", "what": name, "failed": "?"})
            return
        if name == "fchmod":
            if fd0 in self.tracked:
                self.emit(c, {"call": "fchmod", "fd": fd0, "mode": int(args[1], 8)} if ok else
                          {"call": "observe", "what": name, "failed": "?"})
            return
        if name == "newfstatat" and fd0 is not None and sl.unquote(args[1]) == "":
            if fd0 in self.tracked:
                self.emit(c, {"call": "observe", "what": "fstat"})
            return
        if name in FD_OBSERVE:
            if fd0 in self.tracked:
                if name == "fcntl" and len(args) > 1 and args[1].startswith("F_DUPFD"):
                    self.emit(c, {"call": "other", "what": "fcntl " + args[1]})
                else:
                    self.emit(c, {"call": "observe", "what": name})
            return
        if name == "epoll_ctl":
            if len(args) > 2 and args[2].isdigit() and int(args[2]) in self.tracked:
                self.emit(c, {"call": "observe", "what": name})
            return
        if name in FD_OTHER:
            if fd0 in self.tracked:
                self.emit(c, {"call": "other" if ok else "observe", "what": name})
            return
        if name in ("copy_file_range", "splice", "tee"):
            fds = [int(a) for a in args if a.isdigit()]
            if any(f in self.tracked for f in fds[:3]):
                self.emit(c, {"call": "other" if ok else "observe", "what": name})
            return
        if name == "mmap":
            if len(args) > 4 and args[4].isdigit() and int(args[4]) in self.tracked:
                shared_w = "PROT_WRITE" in args[2] and "MAP_SHARED" in args[3]
                self.emit(c, {"call": "other" if shared_w else "observe", "what": name})
            return
        # --- two-path calls
        if name in PATH2:
            d1, p1, d2, p2 = PATH2[name]
            a1 = self.absp(args[d1] if d1 is not None else None, sl.unquote(args[p1])) if p1 is not None else None
            a2 = self.absp(args[d2] if d2 is not None else None, sl.unquote(args[p2]))
            l1 = self.label(a1) if a1 else None
            l2 = self.label(a2)
            if l1 is None and l2 is None:
                return
            if not ok:
                self.emit(c, {"call": "observe", "what": name, "failed": c.get("err") or "?"}); return
            if name in ("rename", "renameat") or (name == "renameat2" and args[4] in ("0", "")):
                self.emit(c, {"call": "rename", "from": l1 or ("EXT:" + a1), "to": l2 or ("EXT:" + a2)})
            else:
                self.emit(c, {"call": "other", "what": name})
            return
        # --- one-path calls
        if name in PATH1:
            di, pi = PATH1[name]
            path = sl.unquote(args[pi])
            if path is None:
                return
            ap = self.absp(args[di] if di is not None else None, path)
            lab = self.label(ap)
            if name == "chdir":
                if ok:
                    self.unsupported.append("chdir")
                return
            if lab is None:
                return
            if not ok:
                self.emit(c, {"call": "observe", "what": name, "path": lab, "failed": c.get("err") or "?"}); return
            if name in PATH_OBSERVE:
                self.emit(c, {"call": "observe", "what": name, "path": lab})
            elif name in ("chmod", "fchmodat", "fchmodat2"):
                self.emit(c, {"call": "chmod", "path": lab, "mode": int(args[pi + 1], 8)})
            elif name == "unlink" or (name == "unlinkat" and "AT_REMOVEDIR" not in args[2]):
                self.emit(c, {"call": "unlink", "path": lab})
            else:
                self.emit(c, {"call": "other", "what": name, "path": lab})
            return
        # --- anything else that names a path inside the scratch tree
        if name in ("getcwd",):
            return
        for a in args:
            s = sl.unquote(a) if a.startswith('"') else None
            if s and (s.startswith("/") or "/" in s or s.endswith(".sh")):
                if self.label(self.absp(None, s)) is not None:
                    self.emit(c, {"call": "other", "what": name}); return


def map_log(text, cwd, tmpdir):
    calls, starts = sl.parse_strace(text)
    m = Mapper(cwd, tmpdir)
    for c in calls:
        m.feed(c)
    return m, calls, starts


# ----------------------------------------------------------------------------------
# Scenario -> concrete files

def bits_to_int(bits):
    return sum(1 << b for b in bits)


SIZES = [0, 40, 700, 5000, 70000, 1 << 20]


def content(status, size, salt, langerr=False):
    """Concrete bytes for a status class; size is a target, not exact."""
    if status == "differs":
        if size == 0:
            return b""                            # the 0-byte file formats to "\\n"
        blk = "if [ -f x%d ];then\n  echo   'hi %d'   # c\nfi\nfoo(){ bar;   }\n"
        out, i = ["#!/bin/sh\n"], 0
        n = 10
        while n < size or i == 0:
            b = blk % (salt, i); out.append(b); n += len(b); i += 1
        return "".join(out).encode()
    if status == "same":
        if size == 0:
            return b"\n"
        out, i, n = ["#!/bin/sh\n"], 0, 10
        while n < size or i == 0:
            b = "echo hi %d %d\n" % (salt, i); out.append(b); n += len(b); i += 1
        return "".join(out).encode()
    if status == "parseerr":
        out, i, n = ["#!/bin/sh\n"], 0, 10
        while n < size:
            b = "echo   ok %d\n" % i; out.append(b); n += len(b); i += 1
        if langerr:
            # valid bash, but an error of the language chosen on the command line (-ln=posix): parses up to the array
            out.append("arr=(a b %d)\necho   two\n" % salt)
        else:
            out.append("if true;then\n  echo 'unterminated %d\n" % salt)
        return "".join(out).encode()
    raise ValueError(status)


class Case:
    """One scenario vector from TLC made concrete (file bytes, sizes, TMPDIR variant)."""

    def __init__(self, idx, vec, sizes, tmpvariant):
        self.idx = idx
        self.vec = vec
        self.sizes_req = list(sizes)
        self.umask = bits_to_int(vec["umask"])
        self.tmpvariant = tmpvariant
        self.files = {}
        for k, p in enumerate(sorted(vec["files"])):
            f = vec["files"][p]
            ent = {"path": p, "kind": f["kind"], "mode": bits_to_int(f["mode"]), "status": f["status"],
                   "arg": f["arg"], "to": f["to"]}
            if f["kind"] == "reg":
                ent["data"] = content(f["status"], sizes[k % len(sizes)], idx * 7 + k, langerr=(idx % 2 == 0))
            self.files[p] = ent
        self.wflags = ["-l", "-w"] if idx % 3 == 1 else ["-w"]      # -l -w must write the same way
        if idx % 2 == 0:
            # every second scenario chooses the language explicitly; its "parseerr" files are language errors
            # (a bash array under -ln=posix) rather than syntax errors: they must not be written either
            self.wflags = ["-ln=posix"] + self.wflags
        self.fmt = {}       # path -> formatted bytes (regular files that format)
        self.args = [p for p in sorted(self.files) if self.files[p]["arg"] == "explicit"]
        if any(f["arg"] == "walked" for f in self.files.values()):
            self.args.append("sub")

    def describe(self):
        return {"umask": "%04o" % self.umask, "tmpdir": self.tmpvariant, "args": self.wflags + self.args,
                "files": [{"path": f["path"], "kind": f["kind"], "mode": "%04o" % f["mode"], "status": f["status"],
                           "arg": f["arg"], "size": len(f.get("data", b""))} for f in self.files.values()]}

    def build(self, root):
        """Create root/work (cwd of shfmt) and the TMPDIR variant; returns (cwd, tmpdir, extra_dir_to_remove)."""
        cwd = os.path.join(root, "work")
        os.makedirs(cwd)
        extra = None
        if self.tmpvariant == "same":
            tmpdir = os.path.join(root, "tmp"); os.makedirs(tmpdir)
        elif self.tmpvariant == "xdev":
            tmpdir = vlib_scratch_shm(); extra = tmpdir
        else:
            tmpdir = os.path.join(root, "no-such-tmpdir")
        # regular files first so that symlinks can point at them
        order = sorted(self.files.values(), key=lambda f: f["kind"] != "reg")
        for f in order:
            ap = os.path.join(cwd, f["path"])
            os.makedirs(os.path.dirname(ap), exist_ok=True)
            if f["kind"] == "reg":
                with open(ap, "wb") as fh:
                    fh.write(f["data"])
                os.chmod(ap, f["mode"])
            elif f["kind"] == "symlink":
                os.symlink(os.path.relpath(os.path.join(cwd, f["to"]), os.path.dirname(ap)), ap)
            elif f["kind"] == "fifo":
                os.mkfifo(ap, f["mode"]); os.chmod(ap, f["mode"])
        return cwd, tmpdir, extra

    def seen_through(self, p):
        f = self.files[p]
        return self.files[f["to"]]["data"] if f["kind"] == "symlink" else f.get("data")

    def header(self, tid):
        fs = []
        for p, f in sorted(self.files.items()):
            fs.append({"path": p, "kind": f["kind"], "mode": f["mode"], "status": f["status"],
                       "fmtlen": len(self.fmt[p]) if p in self.fmt else 0, "arg": f["arg"], "to": f["to"]})
        return {"call": "reset", "t": tid, "umask": self.umask, "files": fs}


def shm_available():
    try:
        return os.path.isdir("/dev/shm") and os.stat("/dev/shm").st_dev != os.stat(os.environ.get("VERIF_TMP", "/tmp")).st_dev
    except OSError:
        return False


def vlib_scratch_shm():
    import tempfile
    return tempfile.mkdtemp(prefix="verif-c35-", dir="/dev/shm")


# ----------------------------------------------------------------------------------
# Running

STRACE = ["strace", "-f", "-s", "16", "-e", "trace=%file,%desc,%process"]
# Tracer: harness/cmd/shtrace (own ptrace tracer; its kill counter is global over all threads) or strace
# (counter per thread, see crash_points).  strace is always used for a cross-check of the first scenarios.
TRACER = os.environ.get("C35_TRACER", "shtrace")


class Runner:
    def __init__(self, ck, shfmt, work, shtrace=None):
        self.ck, self.shfmt, self.work = ck, shfmt, work
        self.shtrace = shtrace
        import itertools
        self.counter = itertools.count(1)

    def reference(self, case):
        """Formatted bytes of every regular file (stdin mode, same file name => same language), and a
        check that the concrete content has the status the scenario asks for."""
        root = os.path.join(self.work, "ref%d_%d" % (case.idx, next(self.counter)))
        cwd, tmpdir, extra = case.build(root)
        try:
            for p, f in case.files.items():
                if f["kind"] != "reg":
                    continue
                rc, out, err = sl.run([self.shfmt, "--filename", p], cwd=cwd, stdin=f["data"], env={"TMPDIR": tmpdir})
                if rc == 0:
                    case.fmt[p] = out
                    real = "same" if out == f["data"] else "differs"
                else:
                    real = "parseerr"
                if real != f["status"]:
                    raise vlib.Inconclusive("content library: %s meant to be %s is %s (%r)" % (
                        p, f["status"], real, err[:200]))
        finally:
            shutil.rmtree(root, ignore_errors=True)
            if extra:
                shutil.rmtree(extra, ignore_errors=True)

    def run(self, case, inject=None, tracer=None):
        """One traced `shfmt -w`.  -> dict(events, unsupported, snapshot, rc, stderr, calls, starts, killed_call)"""
        root = os.path.join(self.work, "r%d_%d" % (case.idx, next(self.counter)))
        cwd, tmpdir, extra = case.build(root)
        log = os.path.join(root, "strace.log")
        tracer = tracer or (TRACER if self.shtrace else "strace")
        if tracer == "shtrace":
            cmd = [self.shtrace, "-o", log]
            if inject:
                cmd += ["-kill", "%s:%d" % inject]
            cmd += ["--", self.shfmt] + case.wflags + case.args
        else:
            cmd = STRACE + ["-o", log]
            if inject:
                cmd += ["-e", "inject=%s:signal=KILL:when=%d" % inject]
            cmd += [self.shfmt] + case.wflags + case.args
        try:
            rc, out, err = sl.run(cmd, cwd=cwd, env={"TMPDIR": tmpdir, "HOME": root}, umask=case.umask, timeout=120)
            text = open(log, errors="replace").read() if os.path.exists(log) else ""
            m, calls, starts = map_log(text, cwd, tmpdir)
            snap = sl.snapshot({"": cwd, "TMP": tmpdir})
            killed = [c for c in calls if c.get("killed_at_entry")]
            return {"events": m.events, "unsupported": m.unsupported, "snapshot": snap, "rc": rc,
                    "stderr": err.decode("utf-8", "replace")[:400], "starts": starts,
                    "killed_call": killed[0]["name"] if killed else None,
                    "log_tail": text[-1500:] if not m.events else ""}
        finally:
            shutil.rmtree(root, ignore_errors=True)
            if extra:
                shutil.rmtree(extra, ignore_errors=True)


def ordinals(starts):
    """per call start: (ordinal among calls of that name, ordinal among calls of that name by that thread)"""
    g, t, out = {}, {}, []
    for tid, name in starts:
        g[name] = g.get(name, 0) + 1
        t[(tid, name)] = t.get((tid, name), 0) + 1
        out.append((g[name], t[(tid, name)]))
    return out


def crash_points(full):
    """Crash point k (0..n): kill before the call of event k executes; k = n is exit_group.
    strace's inject counter `when=` counts the calls of one name *per thread*, and the Go scheduler may
    move the main goroutine between threads, so (name, ordinal) is only a first guess: the killed run's
    own log says which prefix was really reached (see enumerate_crashes)."""
    starts = full["starts"]
    ords = ordinals(starts)
    evs = [e for e in full["events"] if e["call"] not in ("exit", "crash")]
    pts = []
    cls = 0        # number of directory-changing calls before the boundary: boundaries with equal cls
    for k, e in enumerate(evs):   # leave the same directory behind
        s = e["start"]
        mut = e["call"] not in ("observe",)
        pts.append({"k": k, "name": starts[s][1], "when_g": ords[s][0], "when_t": ords[s][1],
                    "mutating": mut, "cls": cls})
        # calls after which the directory looks different (a file appears/disappears/grows/changes mode)
        if e["call"] in ("write", "fchmod", "chmod", "rename", "unlink", "other") or \
                (e["call"] == "open" and "O_CREAT" in e["flags"]):
            cls += 1
    pts.append({"k": len(evs), "name": "exit_group", "when_g": 1, "when_t": 1, "mutating": True, "cls": cls})
    return pts


def reached_prefix(res):
    """Number of events completed before the kill (None if the run was not killed)."""
    if res["events"] and res["events"][-1]["call"] == "crash":
        return len(res["events"]) - 1
    return None


def enumerate_crashes(rn, case, full, all_points, deadline, stats, max_attempts=6, only=None):
    """-> (got: k -> (res, point), wanted ks).  Adaptive: a miss tells the per-thread ordinal to use next."""
    pts = crash_points(full)
    wanted = [p for p in pts if (all_points or p["mutating"]) and (only is None or p["k"] in only)]
    got = {}
    # calls of each name made by the start-up thread before the first event: an ordinal up to that
    # number kills during runtime start-up, whatever thread the main goroutine is on later
    evs0 = [e for e in full["events"] if e["start"] >= 0]
    first = evs0[0]["start"] if evs0 else 0
    main_tid = full["starts"][0][0] if full["starts"] else None
    startup = {}
    for tid, nm in full["starts"][:first]:
        if tid == main_tid:
            startup[nm] = startup.get(nm, 0) + 1
    for p in wanted:
        if p["k"] in got:
            continue
        # The counter is per thread.  If the main goroutine has stayed on the thread that did the
        # runtime start-up, the ordinal over all threads (when_g) is right; if it moved, the ordinal
        # is what the killed run's own log shows for that call.  Outcomes vary from run to run, so
        # guesses are repeated.
        learned = None
        attempts = 0
        oi = 0 if (TRACER == "shtrace" and rn.shtrace) else 1      # shtrace counts over all threads
        while attempts < max_attempts and time.time() < deadline:
            if attempts in (0, 1, 4) or learned is None and attempts != 2:
                w = p["when_g"]
            elif learned is not None:
                w = learned
            else:
                w = p["when_t"]
            attempts += 1
            res = rn.run(case, inject=(p["name"], w))
            stats["crash_runs"] += 1
            k2 = reached_prefix(res)
            if k2 is not None and k2 not in got:
                got[k2] = (res, {"k": k2, "name": p["name"], "when": w})
            if k2 == p["k"]:
                break
            stats["inject_missed"] += 1
            evs = [e for e in res["events"] if e["call"] not in ("exit", "crash")]
            if (k2 is None or k2 > p["k"]) and p["k"] < len(evs):
                learned = ordinals(res["starts"])[evs[p["k"]]["start"]][oi]
                if oi == 1 and p["k"] > 0 and learned <= startup.get(p["name"], 0):
                    learned = None
    return got, [p["k"] for p in wanted]


# ----------------------------------------------------------------------------------
# Validation by TLC and comparison with the directory

def strip(ev):
    return {k: v for k, v in ev.items() if k not in ("sys", "start")}


def validate(ck, runs, cfg="ShfmtWriteTrace.strict.cfg"):
    """runs: list of dicts with 'tid', 'case', 'res'.  One TLC run over the concatenated traces.
    -> (ends: tid -> VEC, reached_i, n, index: list of (tid, first_i, last_i), violation_text)"""
    work = vlib.scratch("c35t-")
    try:
        path = os.path.join(work, "trace.ndjson")
        index = []
        i = 1
        with open(path, "w") as f:
            for r in runs:
                lines = [r["case"].header(r["tid"])] + [strip(e) for e in r["res"]["events"]]
                for l in lines:
                    f.write(json.dumps(l) + "\n")
                index.append((r["tid"], i, i + len(lines) - 1))
                i += len(lines)
        t = vlib.run_tlc("ShfmtWriteTrace", cfg, workers=1, timeout=900, env_extra={"VERIF_TRACE": path})
        ck.add_tlc(t)
        ends = {v["t"]: v for v in t.vecs.get("VEC", [])}
        reached = max([s["i"] for s in t.vecs.get("STAT", [])] or [0])
        return ends, reached, i - 1, index, (t.violation if not t.ok else None)
    finally:
        shutil.rmtree(work, ignore_errors=True)


def compare(case, res, end):
    """Real directory after the run vs the abstract file system TLC printed at exit/crash."""
    snap = res["snapshot"]
    bad = []
    for p, t in end["tgt"].items():
        f = case.files[p]
        s = snap.get(p)
        if s is None:
            bad.append("%s: missing" % p); continue
        if s["kind"] != t["kind"]:
            bad.append("%s: kind %s, spec %s" % (p, s["kind"], t["kind"])); continue
        if t["kind"] == "reg":
            want = f["data"] if t["data"] == "orig" else case.fmt.get(p) if t["data"] == "new" else None
            if want is None or s["data"] != want:
                bad.append("%s: bytes are not the %s bytes (size %d)" % (p, t["data"], s["size"]))
            if s["perm"] != bits_to_int(t["mode"]):
                bad.append("%s: mode %04o, spec %04o" % (p, s["perm"], bits_to_int(t["mode"])))
        elif t["kind"] == "symlink":
            if os.path.normpath(os.path.join(os.path.dirname(p), s["to"])) != f["to"]:
                bad.append("%s: symlink now points to %s" % (p, s["to"]))
    spec_tmps = {t["path"]: t for t in end["tmps"]}
    real_others = {p: s for p, s in snap.items() if p not in end["tgt"] and s["kind"] != "dir"}
    for p, s in snap.items():
        if s["kind"] == "dir" and p not in ("sub", "other"):
            bad.append("unexpected directory %s" % p)
    for p in sorted(set(spec_tmps) | set(real_others)):
        if p not in real_others:
            bad.append("temp %s expected by the spec is not there" % p); continue
        if p not in spec_tmps:
            bad.append("stray file %s (size %d)" % (p, real_others[p]["size"])); continue
        s, t = real_others[p], spec_tmps[p]
        if s["kind"] != "reg" or s["size"] != t["len"]:
            bad.append("temp %s: size %s, spec %d" % (p, s.get("size"), t["len"]))
        elif not any(fm[:t["len"]] == s["data"] for fm in list(case.fmt.values()) + [b""]):
            bad.append("temp %s: bytes are not a prefix of the formatted bytes" % p)
        if s["perm"] != bits_to_int(t["mode"]):
            bad.append("temp %s: mode %04o, spec %04o" % (p, s["perm"], bits_to_int(t["mode"])))
    if end["end"] == "done" and res["rc"] != end["exit"]:
        bad.append("exit status %s, spec %s" % (res["rc"], end["exit"]))
    return bad


def property_facts(case, res):
    """The property's own observables, stated without the spec (used in violation records)."""
    out = {}
    for p, f in case.files.items():
        s = res["snapshot"].get(p)
        if s is None:
            out[p] = "missing"
        elif f["kind"] == "reg":
            what = "orig" if s.get("data") == f["data"] else "formatted" if s.get("data") == case.fmt.get(p) else "OTHER(size %d)" % s["size"]
            out[p] = "%s %s mode %04o (was %04o)" % (s["kind"], what, s["perm"], f["mode"])
        else:
            out[p] = "%s (was %s)" % (s["kind"], f["kind"])
    out["others"] = sorted(p for p, s in res["snapshot"].items() if p not in case.files and s["kind"] != "dir")
    return out


def ev_class(case, ev):
    """Narrow-but-stable description of an event for violation keys (no random names, no fds)."""
    def pc(p):
        if p in case.files:
            f = case.files[p]
            return "%s:%s:%s" % (f["kind"], f["status"], f["arg"])
        return "temp" if p else "?"
    c = ev["call"]
    if c == "open":
        fl = "|".join(sorted(x for x in ev["flags"] if x not in ("O_CLOEXEC", "O_LARGEFILE", "O_NONBLOCK")))
        return "open(%s, %s)" % (pc(ev["path"]), fl)
    if c == "rename":
        return "rename(%s -> %s)" % (pc(ev["from"]), pc(ev["to"]))
    if c in ("unlink", "chmod"):
        return "%s(%s)" % (c, pc(ev["path"]))
    if c == "exit":
        return "exit(%d)" % ev["status"]
    if c == "other":
        return "other(%s)" % ev.get("what")
    return c


def judge(ck, runs, stats):
    """Validate runs with TLC (strict), compare directories; on rejection diagnose with the lax model,
    report, drop the rejected run and continue with the rest (a few times)."""
    pending = list(runs)
    rounds = 0
    while pending and rounds < 3:
        rounds += 1
        for r in pending:
            if r["res"]["unsupported"]:
                raise vlib.Inconclusive("strace log has calls the mapping cannot follow: %s" % r["res"]["unsupported"][:3])
            if not r["res"]["events"] or r["res"]["events"][-1]["call"] not in ("exit", "crash"):
                raise vlib.Inconclusive("strace log without exit/kill line (rc=%s): %s | %s" % (
                    r["res"]["rc"], r["res"]["stderr"], r["res"].get("log_tail", "")[-300:]))
        ends, reached, n, index, viol = validate(ck, pending)
        rejected = None
        for pos, (tid, a, b) in enumerate(index):
            r = pending[pos]
            if tid not in ends:
                rejected = pos
                break
            end = ends[tid]
            stats["validated"] += 1
            ck.cov["evaluations"] += 1
            ck.cov["traces_validated_against_impl"] += 1
            bad = compare(r["case"], r["res"], end)
            sig = (r["case"].idx, end["end"], json.dumps(end["tgt"], sort_keys=True), len(end["tmps"]),
                   tuple(sorted((t["len"], tuple(t["mode"])) for t in end["tmps"])))
            if end["tmps"] or any(t["data"] != "orig" for t in end["tgt"].values()) or end["exit"] == 1:
                stats["nontrivial"].add(sig)
            if r.get("point") is not None:
                stats["reached"].setdefault(r["case"].idx, set()).add(len(r["res"]["events"]) - 1)
            if bad:
                key = "directory differs from spec state after %s: %s" % (
                    end["end"], "; ".join(sorted(set(b.split(":")[-1].strip() if ":" in b else b for b in bad)))[:160])
                ck.violation(key, {"vector": r["vector"], "impl": property_facts(r["case"], r["res"]),
                                   "spec": {"end": end, "diff": bad[:10]}, "scenario": r["case"].describe()})
            elif len(ck.cov["samples"]) < 6 and (r.get("point") is None or end["tmps"]):
                ck.sample({"scenario": r["case"].describe(), "crash_point": r.get("point"),
                           "trace": [ev_class(r["case"], e) for e in r["res"]["events"] if e["call"] != "observe"],
                           "spec_end_state": {"end": end["end"], "targets": {p: t["data"] for p, t in end["tgt"].items()},
                                              "temps": [[t["path"], t["len"]] for t in end["tmps"]]}})
        if rejected is None:
            if viol is not None:
                raise vlib.Inconclusive("TLC error during trace validation:\n" + viol[:1500])
            return
        # --- the trace of run `rejected` is not a behaviour of the contract
        r = pending[rejected]
        tid, a, b = index[rejected]
        evs = [r["case"].header(tid)] + r["res"]["events"]
        at = min(max(reached, a), b) - a          # index into evs of the event with no enabled action
        ev = evs[at]
        diag = diagnose(ck, r) if stats["rejected"] == 0 else ""
        key = "trace rejected by ShfmtWrite at %s%s" % (ev_class(r["case"], ev), (" -> " + diag) if diag else "")
        stats["rejected"] += 1
        ck.cov["evaluations"] += 1
        ck.violation(key, {"vector": r["vector"], "impl": property_facts(r["case"], r["res"]),
                           "spec": {"rejected_event": strip(ev), "position": at, "diagnosis": diag,
                                    "tlc": (viol or "")[:1500]},
                           "trace": [strip(e) for e in r["res"]["events"] if e["call"] != "observe"][:60],
                           "scenario": r["case"].describe()})
        pending = pending[rejected + 1:]
    if pending:
        stats["not_validated"] += len(pending)


def diagnose(ck, r):
    """Replay one rejected trace through the unguarded kernel model: which invariant breaks?"""
    try:
        ends, reached, n, index, viol = validate(ck, [r], cfg="ShfmtWriteTrace.lax.cfg")
    except vlib.Inconclusive:
        return ""
    if viol:
        import re
        m = re.search(r"Invariant (\w+) is violated", viol)
        if m:
            return "invariant %s violated" % m.group(1)
    return ""


# ----------------------------------------------------------------------------------

def model_runs(ck):
    cfg = "ShfmtWrite.%s.cfg" % ck.tier
    t = vlib.run_tlc("ShfmtWrite", cfg, workers=4 if ck.tier == "quick" else 8, timeout=1500)
    ck.add_tlc(t)
    if not t.ok:
        raise vlib.Inconclusive("contract model violates its own invariants:\n" + (t.violation or t.raw_tail)[:3000])
    vecs = t.vecs.get("VEC", [])
    if ck.tier == "thorough":
        # non-vacuity self-tests: in-place writing must break Atomic; a completed replacing run must exist
        t2 = vlib.run_tlc("ShfmtWrite", "ShfmtWrite.inplace.cfg", workers=2, timeout=600)
        if t2.ok or "Invariant Atomic is violated" not in (t2.violation or ""):
            raise vlib.Inconclusive("self-test: InPlace=TRUE does not violate Atomic (vacuous model?)\n" + t2.raw_tail[-800:])
        t3 = vlib.run_tlc("ShfmtWrite", "ShfmtWrite.reach.cfg", workers=2, timeout=600)
        if t3.ok or "Invariant NeverCompletes is violated" not in (t3.violation or ""):
            raise vlib.Inconclusive("self-test: no completed run that replaces a file is reachable\n" + t3.raw_tail[-800:])
        ck.notes["selftests"] = {"inplace_violates_Atomic": True, "completed_run_reachable": True}
    return vecs


def scen_key(v):
    return json.dumps(v, sort_keys=True)


def feat(c):
    sel = [f for f in c.files.values() if f["arg"] != "none"]
    return (len(sel), tuple(sorted((f["kind"], f["status"]) for f in sel)))


def make_cases(ck, vecs):
    vecs = sorted(vecs, key=scen_key)
    rng = ck.rng
    variants = ["same", "xdev" if shm_available() else "same", "missing"]
    cases = []
    for i, v in enumerate(vecs):
        sizes = [SIZES[(i + j + rng.randrange(len(SIZES))) % len(SIZES)] for j in range(4)]
        if ck.tier == "quick":
            sizes = [s if s < (1 << 20) or i % 50 == 0 else 5000 for s in sizes]
        cases.append(Case(i, v, sizes, variants[(i + rng.randrange(3)) % 3]))
    return cases


def first_mode(c):
    regs = [f for f in c.files.values() if f["kind"] == "reg" and f["arg"] != "none"]
    return regs[0]["mode"] if regs else 0


def crash_selection(ck, cases):
    """Cases that get every crash point (in this order), and cases that get the state-changing boundaries."""
    rng = ck.rng
    want_full = [
        # one regular file that changes, temp file in $TMPDIR, no chmod needed
        lambda c: feat(c) == (1, (("reg", "differs"),)) and c.umask == 0o22 and c.tmpvariant == "same" and first_mode(c) in (0o640, 0o600),
        # umask clears bits of the mode (fchmod needed), temp file in the target directory
        lambda c: feat(c) == (1, (("reg", "differs"),)) and c.umask == 0o77 and c.tmpvariant != "same" and (first_mode(c) & 0o77),
        # explicit symlink whose pointee would change: refusal
        lambda c: feat(c) == (1, (("symlink", "differs"),)) and any(f["arg"] == "explicit" for f in c.files.values()),
        # two files that both change
        lambda c: feat(c) == (2, (("reg", "differs"), ("reg", "differs"))),
        # parse error next to a file that changes
        lambda c: feat(c) == (2, (("reg", "differs"), ("reg", "parseerr"))),
        # read-only / executable modes
        lambda c: feat(c) == (1, (("reg", "differs"),)) and first_mode(c) == 0o444,
        lambda c: feat(c) == (1, (("reg", "differs"),)) and first_mode(c) == 0o755 and c.umask == 0o77,
    ]
    full = []
    for pred in want_full:
        cand = [c for c in cases if pred(c) and c not in full]
        if cand:
            full.append(cand[rng.randrange(len(cand))])
    rest = [c for c in cases if c not in full and
            any(f["status"] == "differs" and f["arg"] != "none" for f in c.files.values())]
    rng.shuffle(rest)
    if ck.tier == "quick":
        return full[:6], rest[:8]
    return full + rest[:10], rest[10:45]


def full_run_order(ck, cases, sel):
    """crash-selected cases first, then one per (classes, umask), then the rest (seeded order)."""
    first = list(sel)
    seen = set()
    second, third = [], []
    pool = [c for c in cases if c not in first]
    ck.rng.shuffle(pool)
    for c in pool:
        k = (feat(c), c.umask, tuple(sorted(f["arg"] for f in c.files.values())))
        if k in seen:
            third.append(c)
        else:
            seen.add(k); second.append(c)
    return first + second + third


JOBS = 4
BUDGET = {"quick": {"full_s": 20, "full_max": 80, "crash_s": 40},
          "thorough": {"full_s": 240, "full_max": 100000, "crash_s": 520}}


def progress(msg):
    import sys
    print("[c35 %s] %s" % (time.strftime("%H:%M:%S"), msg), file=sys.stderr, flush=True)


def run(ck):
    shfmt = sl.build_shfmt()
    if shutil.which("strace") is None:
        raise vlib.Inconclusive("strace not installed")
    shtrace = vlib.build_harness("shtrace")
    vecs = model_runs(ck)
    progress("model done")
    if not vecs:
        raise vlib.Inconclusive("model emitted no scenarios")
    work = vlib.scratch("c35-")
    stats = {"validated": 0, "rejected": 0, "not_validated": 0, "nontrivial": set(), "reached": {},
             "crash_runs": 0, "inject_missed": 0}
    bud = BUDGET[ck.tier]
    try:
        rn = Runner(ck, shfmt, work, shtrace)
        cases = make_cases(ck, vecs)
        sel_full, sel_part = crash_selection(ck, cases)
        order = full_run_order(ck, cases, sel_full + sel_part)
        runs = []
        tid = [0]

        def add(case, res, point):
            tid[0] += 1
            runs.append({"tid": tid[0], "case": case, "res": res, "point": point,
                         "vector": {"scenario": case.vec, "idx": case.idx, "sizes_req": case.sizes_req,
                                    "tmpvariant": case.tmpvariant, "inject": point}})

        # (V) one complete traced run per scenario
        t0 = time.time()
        fulls = {}
        must = len(sel_full) + len(sel_part)

        def one_full(nc):
            n, c = nc
            if n >= must and (time.time() - t0 > bud["full_s"] or n >= bud["full_max"]):
                return None
            rn.reference(c)
            return rn.run(c)

        with ThreadPoolExecutor(max_workers=JOBS) as ex:
            for c, res in zip(order, ex.map(one_full, enumerate(order))):
                if res is not None:
                    fulls[c.idx] = res
                    add(c, res, None)
        # cross-check of the tracer: strace must report the same events for the same scenario
        ncross = 0
        if TRACER == "shtrace":
            for c in order[:3 if ck.tier == "quick" else 12]:
                if c.idx not in fulls:
                    continue
                other = rn.run(c, tracer="strace")
                a = [ev_class(c, e) for e in fulls[c.idx]["events"]]
                b = [ev_class(c, e) for e in other["events"]]
                if a != b or other["unsupported"]:
                    raise vlib.Inconclusive("shtrace and strace disagree on scenario %d:\n%s\n%s" % (c.idx, a, b))
                ncross += 1
        ck.notes["tracer"] = TRACER
        ck.notes["tracer_crosschecked_with_strace"] = ncross
        progress("full runs done: %d" % len(fulls))
        ck.notes["scenarios_in_model"] = len(cases)
        ck.notes["full_runs"] = len(fulls)
        ck.notes["full_runs_s"] = round(time.time() - t0, 1)
        # (R) crash points
        t1 = time.time()
        deadline = t1 + bud["crash_s"]
        planned = {}

        def one_enum(ca):
            c, allpts = ca
            if time.time() > deadline:
                return None
            return enumerate_crashes(rn, c, fulls[c.idx], allpts, deadline, stats)

        todo = [(c, True) for c in sel_full] + [(c, False) for c in sel_part]
        with ThreadPoolExecutor(max_workers=JOBS) as ex:
            for (c, allpts), r in zip(todo, ex.map(one_enum, todo)):
                if r is None:
                    continue
                got, wanted = r
                planned[c.idx] = wanted
                for k in sorted(got):
                    add(c, got[k][0], got[k][1])
        # further passes over boundaries of the all-boundaries cases that were not hit yet
        reached_now = {}
        for r in runs:
            if r["point"] is not None:
                reached_now.setdefault(r["case"].idx, set()).add(r["point"]["k"])
        for rnd in range(3 if ck.tier == "thorough" else 1):
            for c in sel_full:
                if c.idx not in planned:
                    continue
                miss = set(planned[c.idx]) - reached_now.get(c.idx, set())
                if not miss or time.time() > deadline + (120 if ck.tier == "thorough" else 10):
                    continue
                got, _ = enumerate_crashes(rn, c, fulls[c.idx], True, deadline + (120 if ck.tier == "thorough" else 10),
                                           stats, max_attempts=8, only=miss)
                for k in sorted(got):
                    if k not in reached_now.get(c.idx, set()):
                        reached_now.setdefault(c.idx, set()).add(k)
                        add(c, got[k][0], got[k][1])
        ck.notes["crash_runs"] = stats["crash_runs"]
        ck.notes["crash_runs_s"] = round(time.time() - t1, 1)
        ck.notes["crash_budget_exhausted"] = time.time() > deadline
        progress("crash runs done: %d" % stats["crash_runs"])
        t2 = time.time()
        judge(ck, runs, stats)
        ck.notes["judge_s"] = round(time.time() - t2, 1)
        missing = {}
        for idx, ks in planned.items():
            miss = [k for k in ks if k not in stats["reached"].get(idx, set())]
            if miss:
                missing[idx] = miss
        ck.notes["crash_points_planned"] = sum(len(v) for v in planned.values())
        ck.notes["crash_points_reached"] = sum(len(set(planned[i]) & stats["reached"].get(i, set())) for i in planned)
        ck.notes["crash_points_missing"] = {str(k): v for k, v in missing.items()}
        ck.notes["crash_cases_all_points"] = [c.describe() for c in sel_full if c.idx in planned]
        ck.notes["crash_cases_state_changing_points"] = len([c for c in sel_part if c.idx in planned])
        ck.notes["inject_missed"] = stats["inject_missed"]
        ck.notes["traces_rejected"] = stats["rejected"]
        ck.notes["traces_not_validated_after_rejections"] = stats["not_validated"]
        ck.cov["distinct_nontrivial"] = len(stats["nontrivial"])
        ck.cov["exhaustive"] = False
        ck.cov["rule"] = (
            "scenarios = initial states of ShfmtWrite (kind x mode x status x explicit/walked x umask, one- and two-entry "
            "runs), materialised with seeded sizes (0 B..1 MiB) and a TMPDIR variant (same fs / other fs / missing) and "
            "run once under strace; for selected scenarios one more run per crash point (SIGKILL injected before the "
            "k-th file-affecting system call: every boundary for the first group, the boundaries of state-changing "
            "calls for the second). evaluation = one real run whose strace log was accepted by TLC (ShfmtWriteTrace, "
            "strict) and whose directory was compared with the spec's end state; non-trivial & distinct = distinct "
            "(scenario, spec end state) pairs in which a temp file exists, a target was replaced or the exit status is 1")
        ck.assumptions += [
            "crash = SIGKILL of the process at a system-call boundary (no power loss: nothing is claimed about un-fsynced data beyond 'fsync precedes rename', which the trace validation enforces)",
            "strace reports the calls faithfully; a SIGKILL injected at syscall entry prevents the call (checked indirectly: the directory is compared with the spec state after the logged prefix)",
            "formatted bytes = output of the same binary in stdin mode with --filename",
            "writes are sequential (lseek/pwrite on a traced descriptor have no action and would be rejected)",
            "root user, Linux, ext4 (+ tmpfs for the cross-device TMPDIR variant), GOMAXPROCS default",
        ]
        # Hard requirement (thorough): for the all-boundaries scenarios every distinct directory state along
        # the run (= every maximal run of boundaries between two directory-changing calls: create, write,
        # chmod, rename, unlink) was hit by a kill at least once.
        # Single boundaries inside such a run can stay unreached when the scheduler keeps moving the main
        # goroutine between threads (strace counts per thread); they are listed in crash_points_missing.
        uncovered = {}
        for c in sel_full:
            if c.idx not in planned:
                uncovered[c.idx] = "not enumerated (time budget)"
                continue
            pts = {p["k"]: p["cls"] for p in crash_points(fulls[c.idx])}
            got = {pts[k] for k in stats["reached"].get(c.idx, set()) if k in pts}
            miss = sorted(set(pts.values()) - got)
            if miss:
                uncovered[c.idx] = miss
        ck.notes["crash_state_classes_uncovered"] = {str(k): v for k, v in uncovered.items()}
        if ck.tier == "thorough" and uncovered:
            raise vlib.Inconclusive("directory states of the all-boundaries scenarios never hit by a kill: %s" % json.dumps(uncovered)[:500])
    finally:
        shutil.rmtree(work, ignore_errors=True)


def replay(ck, rec):
    shfmt = sl.build_shfmt()
    v = rec["vector"]
    work = vlib.scratch("c35r-")
    stats = {"validated": 0, "rejected": 0, "not_validated": 0, "nontrivial": set(), "reached": {},
             "crash_runs": 0, "inject_missed": 0}
    try:
        rn = Runner(ck, shfmt, work, vlib.build_harness("shtrace"))
        case = Case(v["idx"], v["scenario"], v["sizes_req"], v["tmpvariant"])
        rn.reference(case)
        inj = v.get("inject")
        res = None
        if inj:
            full = rn.run(case)
            got, _ = enumerate_crashes(rn, case, full, True, time.time() + 120, stats, max_attempts=12, only={inj["k"]})
            if inj["k"] in got:
                res = got[inj["k"]][0]
        if res is None:
            res = rn.run(case)
            inj = None
        judge(ck, [{"tid": 1, "case": case, "res": res, "point": inj, "vector": v}], stats)
    finally:
        shutil.rmtree(work, ignore_errors=True)
