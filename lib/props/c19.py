# C19 Pathname expansion matches bash.  Spec: ShGlobFS (Style F).
# TLC enumerates (directory tree, glob word, option set) inputs, checks the contract's own laws
# (sorted, nullglob/noglob laws, dotglob only adds) and emits one vector per state with the list of
# paths `printf` must receive.  The trees are materialised once in a scratch directory; every vector
# is one program  `cd TREE; <options>; n WORD`  run by the real interpreter (engine pexp, one fresh
# Runner per program) and by bash (all programs in one process).  Three-way verdict.
# This file only creates the directories, concatenates, runs and compares.
import json, os, shutil
import vlib

LEVEL = "model_checking"

PRELUDE = "n() { printf '%d' $#; printf '<%s>' \"$@\"; echo; }\n"
# bash parses a whole snippet before running it, so extglob has to be on beforehand for the words with
# extended operators (a syntax error otherwise); it does not change how the other words expand
BASH_PRELUDE = PRELUDE + "shopt -s extglob\n"
SHOPTS = ["dotglob", "nullglob", "globstar", "nocaseglob"]


def txt(a):
    return "".join(a)


def make_tree(root, nodes):
    os.makedirs(root)
    # directories first, then files, then links
    for n in nodes:
        if n["k"] == "d":
            os.makedirs(os.path.join(root, *[txt(x) for x in n["p"]]), exist_ok=True)
    for n in nodes:
        path = os.path.join(root, *[txt(x) for x in n["p"]])
        if n["k"] == "f":
            os.makedirs(os.path.dirname(path), exist_ok=True)
            open(path, "w").close()
        elif n["k"] == "l":
            # the target is given from the tree's root: make it relative to the link's directory
            target = os.path.join(root, *[txt(x) for x in n["t"]])
            os.makedirs(os.path.dirname(path), exist_ok=True)
            os.symlink(os.path.relpath(target, os.path.dirname(path)), path)


def program(v, root):
    on = [o for o in v["opts"] if o in SHOPTS]
    off = [o for o in SHOPTS if o not in on]
    s = "cd %s\n" % vlib.shquote(os.path.join(root, "t%d" % v["tree"]))
    s += "set +f\n"
    if off:
        s += "shopt -u %s\n" % " ".join(off)
    if "extglob" in v["opts"]:
        on = on + ["extglob"]
    if on:
        s += "shopt -s %s\n" % " ".join(on)
    if "noglob" in v["opts"]:
        s += "set -f\n"
    return s + "n " + txt(v["word"]) + "\n"


def expected(v):
    ps = [txt(p) for p in v["paths"]]
    return "%d%s\n" % (len(ps), "".join("<%s>" % p for p in ps) if ps else "<>")


def key_of(v):
    return "tree %d opts [%s] word %s" % (v["tree"], " ".join(sorted(v["opts"])), txt(v["word"]))


def evaluate(ck, vecs, h, collect=None):
    root = vlib.scratch("globfs-")
    try:
        done = set()
        for v in vecs:
            if v["tree"] not in done:
                done.add(v["tree"])
                make_tree(os.path.join(root, "t%d" % v["tree"]), v["nodes"])
        progs = [program(v, root) for v in vecs]
        ires = vlib.run_harness(h, "pexp", [{"src": PRELUDE + p} for p in progs], shards=8)
        bres = vlib.run_shell_evals(progs, prelude=BASH_PRELUDE)
    finally:
        shutil.rmtree(root, ignore_errors=True)
    for v, p, ir, br in zip(vecs, progs, ires, bres):
        ck.cov["evaluations"] += 1
        key = key_of(v)
        rec = {"vector": v, "program": p.replace(root, "$ROOT")}
        if ir.get("panic"):
            ck.violation("panic " + key, dict(rec, impl=ir))
            continue
        ck.cov["traces_validated_against_impl"] += 1
        if v["nontrivial"]:
            ck.cov["distinct_nontrivial"] += 1
        spec = (expected(v), False)
        impl = ("" if ir.get("parse_error") else ir["out"], bool(ir.get("parse_error")) or ir["status"] != 0)
        bash = (br["out"], br["rc"] != 0)
        if collect is not None:
            collect.append((v, spec, impl, bash))
        if impl == spec and bash == spec:
            if v["nontrivial"]:
                ck.sample({"tree": v["tree"], "opts": sorted(v["opts"]), "word": txt(v["word"]), "stdout": spec[0]})
            continue
        if impl == bash and bash != spec:
            ck.drift(dict(rec, spec=spec, impl=impl, bash=bash))
            if ck.notes.get("spec_drift", 0) <= 10:
                print("SPEC-DRIFT property=C19 key=%s spec=%r bash=impl=%r" % (key, spec, bash))
            continue
        dn = dev_name(v, impl) if bash == spec else None
        ck.violation(dn or key, dict(rec, spec=spec, impl=impl, bash=bash, stderr=ir.get("err", "")[:200],
                                     spec_agrees_with_bash=(bash == spec)))
        if collect is not None:
            collect[-1] = collect[-1] + (dn,)


def dev_name(v, impl):
    """Name of the known deviation(s) (switches of ShGlobFS!ExpandPath) whose prediction equals the output."""
    for d in sorted(v.get("devs", []), key=lambda d: (len(d["name"]), sorted(d["name"]))):
        if (expected(d), False) == impl:
            return "Dev_" + "+".join(sorted(d["name"]))
    return None


def run(ck):
    h = vlib.build_harness("param")
    t = vlib.run_tlc("ShGlobFS", "ShGlobFS.%s.cfg" % ck.tier, workers=8 if ck.tier == "quick" else 16, timeout=1500)
    ck.add_tlc(t)
    if not t.ok:
        raise vlib.Inconclusive("ShGlobFS: the contract violates one of its own laws:\n" + (t.violation or t.raw_tail))
    vecs = t.vecs.get("VEC", [])
    ck.notes["bfs_vectors"] = len(vecs)
    if ck.tier == "quick":
        # seeded part: random (tree, word, option set) triples from the wide menus of the thorough tier
        ts = vlib.run_tlc("ShGlobFS", "ShGlobFS.sim.cfg", simulate=150, depth=4, seed=ck.seed, timeout=900)
        ck.add_tlc(ts)
        if not ts.ok:
            raise vlib.Inconclusive("ShGlobFS (simulation): the contract violates one of its own laws:\n" + (ts.violation or ts.raw_tail))
        seen = set(key_of(v) for v in vecs)
        for v in ts.vecs.get("VEC", []):
            v["tree"] += 100   # the wide menu has its own numbering of scratch directories
            if key_of(v) not in seen:
                seen.add(key_of(v))
                vecs.append(v)
        ck.notes["simulated_vectors_new"] = len(vecs) - ck.notes["bfs_vectors"]
    ck.cov["exhaustive"] = True
    ck.cov["rule"] = ("one vector per distinct state of ShGlobFS (TLC BFS): tree x glob word x option set; non-trivial = "
                      "the word has an unquoted metacharacter, globbing is on and at least one path matched")
    ck.assumptions += ["bash 5.2.15 (LC_ALL=C) as the reference shell", "hand-made trees of depth <= 4; symbolic links at the top and inside directories"]
    evaluate(ck, vecs, h)


def replay(ck, rec):
    h = vlib.build_harness("param")
    evaluate(ck, [rec["vector"]], h)
