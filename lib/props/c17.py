# C17 Glob patterns match exactly what bash matches.  Spec: ShGlob (Style F).
# TLC enumerates every pattern up to MaxToks tokens per (family, mode) and computes, from the
# reference semantics in the spec, the set of matching subjects among all subjects of the family.
# Each state is one vector:
#   (R) pattern.Regexp(pat, mode) on the real code: error allowed only where the spec says
#       malformed / named deviation; otherwise the regexp must compile and accept exactly the set;
#   (O) bash 5.2 on the same pattern and subjects (`case` with/without extglob, nocasematch;
#       real pathname expansion for the Filenames modes): three-way verdict;
#   (I) for the extended-operator families the same vectors run as `case`/`[[ ]]` programs in the
#       real interpreter (internal.ExtendedPatternMatcher) against the same expected sets.
import json, os
import vlib
from props import globlib as G

LEVEL = "model_checking"


def run(ck):
    if os.environ.get("VERIF_GLOB_CFG"):      # development aid: one named cfg, no simulation
        G.run_families(ck, [os.environ["VERIF_GLOB_CFG"]], prop="C17")
    elif ck.tier == "quick":
        G.run_families(ck, ["ShGlob.quick.cfg"], prop="C17", sim=("ShGlob.sim.cfg", 40, 7))
    else:
        G.run_families(ck, ["ShGlob.thorough.cfg", "ShGlob.thorough2.cfg"], prop="C17", sim=("ShGlob.sim.cfg", 300, 8))


def replay(ck, rec):
    G.replay(ck, rec, prop="C17")
