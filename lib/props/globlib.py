# Shared machinery for C17/C18 (spec ShGlob): TLC run, Go replay, bash oracle batchers, verdicts.
# No pattern semantics here: expected sets come from spec/ShGlob.tla (via TLC) and from bash;
# this file only renders vectors into calls / shell text and compares sets.
import json, os, shutil
import vlib

FLAG_ORDER = ["EntireString", "Filenames", "NoGlobCase", "NoGlobStar", "GlobLeadingDot", "ExtendedOperators", "Shortest"]


def q(s):
    """Python str (unicode) -> bash $'..' word with exact UTF-8 bytes."""
    return vlib.bash_dollar_quote(s.encode("utf-8"))


def text(a):
    return vlib.unchars(a)


def modekey(mode):
    return "|".join(f for f in FLAG_ORDER if f in mode)


def bits_to_set(bits):
    return frozenset(i + 1 for i, c in enumerate(bits) if c == "1")


# ----------------------------------------------------------------------------------
# bash oracles

CASE_FN = ('m() { local p=$1 r= s; shift; for s in "${S[@]}" "$@"; do case $s in $p) r+=1;; *) r+=0;; esac; done; '
           'printf %s "$r"; }')
DBR_FN = ('m() { local p=$1 r= s; shift; for s in "${S[@]}" "$@"; do if [[ $s == $p ]]; then r+=1; else r+=0; fi; done; '
          'printf %s "$r"; }')


def bash_match_sets(items, subjects, *, construct="case", extglob=False, nocase=False, per_process=4000):
    """items: list of (pattern, [extra subjects]).  For every item the set of 1-based indices into
    subjects + extras that bash matches with `case $s in $p)` (extglob as given) or `[[ $s == $p ]]`
    (bash always enables extglob there).  One bash loop over all subjects per pattern, thousands of
    patterns per bash process.  Returns list of frozenset, or None where bash gave no usable answer."""
    pre = ["shopt -%s extglob" % ("s" if extglob else "u")]
    if nocase:
        pre.append("shopt -s nocasematch")
    pre.append("S=(" + " ".join(q(s) for s in subjects) + ")")
    pre.append(CASE_FN if construct == "case" else DBR_FN)
    snippets = ["m " + q(p) + "".join(" " + q(x) for x in extra) for p, extra in items]
    res = vlib.run_shell_evals(snippets, prelude="\n".join(pre), locale="C.utf8", per_process=per_process, jobs=4)
    out = []
    for (p, extra), r in zip(items, res):
        n = len(subjects) + len(extra)
        if r is None or len(r["out"]) != n or set(r["out"]) - {"0", "1"}:
            out.append(None)
        else:
            out.append(bits_to_set(r["out"]))
    return out


# ----------------------------------------------------------------------------------
# the check

def spec_set(v, nsubj):
    s = set(v["acc"])
    for i, b in enumerate(v["xacc"]):
        if b:
            s.add(nsubj + 1 + i)
    return frozenset(s)


def impl_set(r, nsubj):
    s = set(r["acc"])
    for i, b in enumerate(r["xacc"]):
        if b:
            s.add(nsubj + 1 + i)
    return frozenset(s)


def show(idx, subjects, extra):
    allsub = list(subjects) + list(extra)
    return [allsub[i - 1] for i in sorted(idx)][:40]


def go_vectors(vecs, meta=False):
    return [{"pat": v["pat"], "mode": sorted(v["mode"]), "subj": v["fam"], "extra": v["xsubj"], "meta": meta}
            for v in vecs]


def run_go(h, vecs, subjects_raw, meta=False):
    d = vlib.scratch("globsubj-")
    try:
        path = os.path.join(d, "subjects.json")
        with open(path, "w") as f:
            json.dump(subjects_raw, f)
        return vlib.run_harness(h, "glob", go_vectors(vecs, meta), args=[path], shards=8)
    finally:
        shutil.rmtree(d, ignore_errors=True)


def bash_oracle(vecs, subjects):
    """Returns list (parallel to vecs) of frozenset or None (no oracle for that vector)."""
    out = [None] * len(vecs)
    groups = {}
    for i, v in enumerate(vecs):
        mode = v["mode"]
        if "Filenames" in mode:
            continue  # pathname expansion oracle: see bash_glob_oracle
        key = (v["fam"], "ExtendedOperators" in mode, "NoGlobCase" in mode)
        groups.setdefault(key, {}).setdefault((text(v["pat"]), tuple(text(x) for x in v["xsubj"])), []).append(i)
    for (fam, ext, nocase), items in sorted(groups.items()):
        keys = list(items)
        res = bash_match_sets([(p, list(x)) for p, x in keys], subjects[fam], extglob=ext, nocase=nocase)
        for k, r in zip(keys, res):
            for i in items[k]:
                out[i] = r
    return out


ALT_DEVS = {"deadbracket", "nocaseclass", "asciiclass"}      # = ShGlob!AltDevs
TRIGGER_DEVS = {"rangeclass"}    # deviations with a trigger class only
ERR_DEVS = {"collating": "syntax", "openclass": "syntax", "negext": "negext"}   # deviation -> error kind it allows
_DUMP = os.environ.get("VERIF_GLOB_DUMP")


def dump(kind, rec):
    """Development aid: VERIF_GLOB_DUMP=<file> appends every non-pass verdict as ndjson."""
    if _DUMP:
        with open(_DUMP, "a") as f:
            f.write(json.dumps(dict(rec, kind=kind), default=str) + "\n")


def vec_key(kind, v):
    return "%s pat=%s mode=%s" % (kind, json.dumps(text(v["pat"])), modekey(v["mode"]))


def judge(ck, v, r, b, subjects):
    """One vector: spec (v), impl (r = Go result), bash (b = set or None)."""
    subj = subjects[v["fam"]]
    n = len(subj)
    extra = [text(x) for x in v["xsubj"]]
    pat = text(v["pat"])
    ck.cov["evaluations"] += 1
    ck.cov["traces_validated_against_impl"] += 1
    if v.get("nontrivial"):
        ck.cov["distinct_nontrivial"] += 1
    rec = {"vector": v, "pattern": pat, "mode": modekey(v["mode"])}
    if "panic" in r:
        ck.violation(vec_key("panic", v), dict(rec, impl=r)); return
    if "harness_error" in r:
        raise vlib.Inconclusive(r["harness_error"])
    sp = spec_set(v, n)
    rec["spec"] = {"matches": show(sp, subj, extra), "malformed": v["malformed"], "devs": v["devs"]}
    if b is not None:
        rec["bash"] = {"matches": show(b, subj, extra)}
    if r["err"]:
        rec["impl"] = {"error": r["err"], "kind": r["errkind"]}
        if v["malformed"] and r["errkind"] == "syntax":
            ck.notes["errors_on_malformed"] = ck.notes.get("errors_on_malformed", 0) + 1
            return
        allowed = [d for d in sorted(v["devs"]) if ERR_DEVS.get(d) == r["errkind"]]
        if allowed:
            for d in allowed:
                ck.notes["Dev_" + d] = ck.notes.get("Dev_" + d, 0) + 1
            return
        trig = sorted(set(v["devs"]) & TRIGGER_DEVS)
        if trig:
            for d in trig:
                ck.violation("Dev_" + d, rec)
            dump("dev", rec)
            return
        dump("error", rec)
        ck.violation(vec_key("error on a well-formed pattern:", v), rec); return
    if r["compile_err"]:
        rec["impl"] = {"rx": r["rx"], "compile_error": r["compile_err"]}
        dump("nocompile", rec)
        ck.violation(vec_key("regexp does not compile:", v), rec); return
    im = impl_set(r, n)
    rec["impl"] = {"rx": r["rx"], "matches": show(im, subj, extra)}
    if im == sp and (b is None or b == sp):
        if v.get("nontrivial"):
            ck.sample({"pattern": pat, "mode": modekey(v["mode"]), "regexp": r["rx"],
                       "matches": show(sp, subj, extra)[:12], "bash_agrees": b is not None})
        return
    if b is not None and im == b and b != sp:
        dump("drift", rec)
        ck.drift(rec); return
    rec["spec_agrees_with_bash"] = (b is None or b == sp)
    rec["diff_impl_only"] = show(im - (b if b is not None else sp), subj, extra)
    rec["diff_impl_missing"] = show((b if b is not None else sp) - im, subj, extra)
    # Named deviations with an alternative semantics defined in the spec (ShGlob!Devs): reported under
    # the deviation's name only when the code computes exactly what the deviation says it computes.
    alt = v.get("alt") or {}
    if alt.get("on") and im == spec_set(alt, n):
        for d in sorted(set(v["devs"]) & ALT_DEVS):
            ck.violation("Dev_" + d, rec)
        dump("dev", rec)
        return
    trig = sorted(set(v["devs"]) & TRIGGER_DEVS)
    if trig:
        for d in trig:
            ck.violation("Dev_" + d, rec)
        dump("dev", rec)
        return
    dump("differs", rec)
    ck.violation(vec_key("language differs:", v), rec)


def run_families(ck, cfg, prop):
    h = vlib.build_harness("glob")
    t = vlib.run_tlc("ShGlob", cfg, workers=8, timeout=1500)
    ck.add_tlc(t)
    if not t.ok:
        raise vlib.Inconclusive("ShGlob: the contract model is inconsistent:\n" + (t.violation or t.raw_tail))
    vecs = t.vecs.get("VEC", [])
    subjects_raw = {s["fam"]: s["subjects"] for s in t.vecs.get("STAT", [])}
    subjects = {f: [text(x) for x in lst] for f, lst in subjects_raw.items()}
    ck.cov["exhaustive"] = True
    res = run_go(h, vecs, subjects_raw)
    bres = bash_oracle(vecs, subjects)
    ck.notes["bash_cross_checked"] = sum(1 for b in bres if b is not None)
    for v, r, b in zip(vecs, res, bres):
        judge(ck, v, r, b, subjects)


def replay(ck, rec, prop):
    h = vlib.build_harness("glob")
    v = rec["vector"]
    raise NotImplementedError
