# Shared machinery for C17/C18 (spec ShGlob): TLC run, Go replay, bash oracle batchers, verdicts.
# No pattern semantics here: expected sets come from spec/ShGlob.tla (via TLC) and from bash;
# this file only renders vectors into calls / shell text and compares sets.
import json, os, shutil
import vlib

FLAG_ORDER = ["EntireString", "Filenames", "NoGlobCase", "NoGlobStar", "GlobLeadingDot", "ExtendedOperators", "Shortest"]


def q(s):
    """Python str (unicode) -> bash $'..' word with exact UTF-8 bytes."""
    return vlib.bash_dollar_quote(s.encode("utf-8"))


def text(a):
    return vlib.unchars(a)


def modekey(mode):
    return "|".join(f for f in FLAG_ORDER if f in mode)


def bits_to_set(bits):
    return frozenset(i + 1 for i, c in enumerate(bits) if c == "1")


# ----------------------------------------------------------------------------------
# bash oracles

CASE_FN = ('m() { local p=$1 r= s; shift; for s in "${S[@]}" "$@"; do case $s in $p) r+=1;; *) r+=0;; esac; done; '
           'printf %s "$r"; }')
DBR_FN = ('m() { local p=$1 r= s; shift; for s in "${S[@]}" "$@"; do if [[ $s == $p ]]; then r+=1; else r+=0; fi; done; '
          'printf %s "$r"; }')


def bash_match_sets(items, subjects, *, construct="case", extglob=False, nocase=False, per_process=4000):
    """items: list of (pattern, [extra subjects]).  For every item the set of 1-based indices into
    subjects + extras that bash matches with `case $s in $p)` (extglob as given) or `[[ $s == $p ]]`
    (bash always enables extglob there).  One bash loop over all subjects per pattern, thousands of
    patterns per bash process.  Returns list of frozenset, or None where bash gave no usable answer."""
    pre = ["shopt -%s extglob" % ("s" if extglob else "u")]
    if nocase:
        pre.append("shopt -s nocasematch")
    pre.append("S=(" + " ".join(q(s) for s in subjects) + ")")
    pre.append(CASE_FN if construct == "case" else DBR_FN)
    snippets = ["m " + q(p) + "".join(" " + q(x) for x in extra) for p, extra in items]
    res = vlib.run_shell_evals(snippets, prelude="\n".join(pre), locale="C.utf8", per_process=per_process, jobs=4)
    out = []
    for (p, extra), r in zip(items, res):
        n = len(subjects) + len(extra)
        if r is None or len(r["out"]) != n or set(r["out"]) - {"0", "1"}:
            out.append(None)
        else:
            out.append(bits_to_set(r["out"]))
    return out


# ----------------------------------------------------------------------------------
# the check

def untext(s):
    """str -> the spec's text representation (symbolic names for the characters TLC cannot print)."""
    inv = {v: k for k, v in vlib.SYMBOLIC.items()}
    return [inv.get(c, c) for c in s]


def subjects_raw_of(subjects, fam):
    return [untext(x) for x in subjects[fam]]


def spec_set(v, nsubj):
    s = set(v["acc"])
    for i, b in enumerate(v["xacc"]):
        if b:
            s.add(nsubj + 1 + i)
    return frozenset(s)


def impl_set(r, nsubj):
    s = set(r["acc"])
    for i, b in enumerate(r["xacc"]):
        if b:
            s.add(nsubj + 1 + i)
    return frozenset(s)


def show(idx, subjects, extra):
    allsub = list(subjects) + list(extra)
    return [allsub[i - 1] for i in sorted(idx)][:40]


def go_vectors(vecs, meta=False):
    return [{"pat": v["pat"], "mode": sorted(v["mode"]), "subj": v["fam"], "extra": v["xsubj"], "meta": meta}
            for v in vecs]


def run_go(h, vecs, subjects_raw, meta=False):
    d = vlib.scratch("globsubj-")
    try:
        path = os.path.join(d, "subjects.json")
        with open(path, "w") as f:
            json.dump(subjects_raw, f)
        return vlib.run_harness(h, "glob", go_vectors(vecs, meta), args=[path], shards=8)
    finally:
        shutil.rmtree(d, ignore_errors=True)


def materialisable(s):
    """Can the subject be a relative path below the scratch directory (all nodes are directories)?"""
    if not s or s.startswith("/") or s.endswith("/") or "\n" in s or "\x00" in s:
        return False
    comps = s.split("/")
    return all(c not in ("", ".", "..") for c in comps)


def bash_glob_sets(items, subjects, *, nocase=False, dotglob=False, globstar=False, extglob=False):
    """Real pathname expansion.  A directory tree is built in which every materialisable subject is
    a directory; for every item (pattern, extras) the unquoted expansion `$p` (IFS empty, nullglob)
    is run inside it.  Returns list of (matched index set, comparable index set) or None.
    Patterns that could leave the tree (leading "/", a ".." anywhere) get no oracle."""
    root = vlib.scratch("globtree-")
    try:
        tree = os.path.join(root, "t")
        os.makedirs(tree)
        made = set()
        for sub in subjects:
            if materialisable(sub):
                os.makedirs(os.path.join(tree, sub.rstrip("/")), exist_ok=True)
                made.add(sub)
        pre = ["cd %s || exit 9" % q(tree), "shopt -s nullglob",
               "shopt -%s nocaseglob" % ("s" if nocase else "u"), "shopt -%s dotglob" % ("s" if dotglob else "u"),
               "shopt -%s globstar" % ("s" if globstar else "u"), "shopt -%s extglob" % ("s" if extglob else "u"),
               "m() { local IFS=; local -a r; r=($1); printf '%s\\n' \"${r[@]}\"; }"]
        # no oracle where pathname expansion is not string matching: patterns that leave the tree (leading
        # "/", ".."), empty path components ("//": bash collapses them), a quoted slash ("\\/": bash finds
        # nothing), and a globstar after a directory part ("x/**": bash prints the zero-directory case as "x")
        todo = [i for i, (p, _) in enumerate(items)
                if not (p.startswith("/") or ".." in p or "//" in p or "\\/" in p or (globstar and "/**" in p))]
        res = vlib.run_shell_evals(["m " + q(items[i][0]) for i in todo], prelude="\n".join(pre), locale="C.utf8",
                                   per_process=4000, jobs=4)
        out = [None] * len(items)
        for i, r in zip(todo, res):
            pat, extra = items[i]
            if r is None or r.get("killed_shell"):
                continue
            allsub = list(subjects) + list(extra)
            index = {}
            for k, sub in enumerate(allsub):
                index.setdefault(sub, []).append(k + 1)
            names = r["out"].encode("latin-1").decode("utf-8", "replace").split("\n")
            names = [x for x in names if x != ""]
            mask = frozenset(k + 1 for k, sub in enumerate(allsub) if sub in made)
            if names == [pat]:
                continue    # the word came back unchanged: bash did not treat it as a pattern (no answer)
            got = set()
            for nm in names:
                for k in index.get(nm, ()):
                    got.add(k)
            out[i] = (frozenset(got) & mask, mask)
        return out
    finally:
        shutil.rmtree(root, ignore_errors=True)


def bash_oracle(vecs, subjects):
    """Returns list (parallel to vecs) of (matched set, comparable index set or None = all), or None
    (no oracle for that vector)."""
    out = [None] * len(vecs)
    groups = {}
    for i, v in enumerate(vecs):
        mode = v["mode"]
        ext, nocase = "ExtendedOperators" in mode, "NoGlobCase" in mode
        if "Filenames" in mode:
            key = (v["fam"], "glob", ext, nocase, "GlobLeadingDot" in mode, "NoGlobStar" not in mode)
        else:
            key = (v["fam"], "case", ext, nocase, False, False)
        groups.setdefault(key, {}).setdefault((text(v["pat"]), tuple(text(x) for x in v["xsubj"])), []).append(i)
    for (fam, kind, ext, nocase, dot, gstar), items in sorted(groups.items()):
        keys = list(items)
        its = [(p, list(x)) for p, x in keys]
        if kind == "case":
            res = [None if r is None else (r, None) for r in
                   bash_match_sets(its, subjects[fam], extglob=ext, nocase=nocase)]
        else:
            res = bash_glob_sets(its, subjects[fam], nocase=nocase, dotglob=dot, globstar=gstar, extglob=ext)
        for k, r in zip(keys, res):
            for i in items[k]:
                out[i] = r
    return out


ALT_DEVS = {"deadbracket", "nocaseclass", "asciiclass", "groupscan", "slashbracket"}      # = ShGlob!AltDevs
LOOSE_MALFORMED = {"unclosed-group"}   # undefined constructs on which bash itself is erratic
TRIGGER_DEVS = {"rangeclass"}                 # deviations with a trigger class only (any difference)
TRIGGER_ERR_DEVS = {"rangeclass", "dashfirst", "classdash"}   # ... whose known symptom is a syntax error
ERR_DEVS = {"collating": "syntax", "openclass": "syntax", "negext": "negext"}   # deviation -> error kind it allows
_DUMP = os.environ.get("VERIF_GLOB_DUMP")


def dump(kind, rec):
    """Development aid: VERIF_GLOB_DUMP=<file> appends every non-pass verdict as ndjson."""
    if _DUMP:
        with open(_DUMP, "a") as f:
            f.write(json.dumps(dict(rec, kind=kind), default=str) + "\n")


def vec_key(kind, v):
    return "%s pat=%s mode=%s" % (kind, json.dumps(text(v["pat"])), modekey(v["mode"]))


def judge(ck, v, r, b, subjects):
    """One vector: spec (v), impl (r = Go result), bash (b = set or None)."""
    subj = subjects[v["fam"]]
    n = len(subj)
    extra = [text(x) for x in v["xsubj"]]
    pat = text(v["pat"])
    ck.cov["evaluations"] += 1
    ck.cov["traces_validated_against_impl"] += 1
    if v.get("nontrivial"):
        ck.cov["distinct_nontrivial"] += 1
    rec = {"vector": dict(v, subjects=subjects_raw_of(subjects, v["fam"])), "pattern": pat, "mode": modekey(v["mode"])}
    if "panic" in r:
        ck.violation(vec_key("panic", v), dict(rec, impl=r)); return
    if "harness_error" in r:
        raise vlib.Inconclusive(r["harness_error"])
    sp = spec_set(v, n)
    rec["spec"] = {"matches": show(sp, subj, extra), "malformed": v["malformed"], "devs": v["devs"],
                   "quirks": v.get("quirks", [])}
    mask = None
    if b is not None:
        b, mask = b
        rec["bash"] = {"matches": show(b, subj, extra)}
        if mask is not None:
            rec["bash"]["comparable_subjects"] = len(mask)
        if v.get("quirks"):
            # bash 5.2 departs from its own manual here (ShGlob!Quirks): not used as an oracle
            for qk in v["quirks"]:
                ck.notes["BashQuirk_" + qk] = ck.notes.get("BashQuirk_" + qk, 0) + 1
            rec["bash"]["ignored"] = True
            b = None

    def on(x):   # restrict a set to the subjects bash can answer for
        return x if mask is None else x & mask
    loose = bool(set(v["malformed"]) & LOOSE_MALFORMED)
    if r["err"]:
        rec["impl"] = {"error": r["err"], "kind": r["errkind"]}
        if v["malformed"] and (r["errkind"] == "syntax" or (loose and r["errkind"] == "negext")):
            ck.notes["errors_on_malformed"] = ck.notes.get("errors_on_malformed", 0) + 1
            return
        allowed = [d for d in sorted(v["devs"]) if ERR_DEVS.get(d) == r["errkind"]]
        if allowed:
            for d in allowed:
                ck.notes["Dev_" + d] = ck.notes.get("Dev_" + d, 0) + 1
            return
        trig = sorted(set(v["devs"]) & TRIGGER_ERR_DEVS) if r["errkind"] == "syntax" else []
        if trig:
            for d in trig:
                ck.violation("Dev_" + d, rec)
            dump("dev", rec)
            return
        dump("error", rec)
        ck.violation(vec_key("error on a well-formed pattern:", v), rec); return
    if r["compile_err"]:
        rec["impl"] = {"rx": r["rx"], "compile_error": r["compile_err"]}
        if "unclosed-group" in v["malformed"]:
            dump("dev", rec)
            ck.violation("Dev_unclosedgroup_nocompile", rec); return
        dump("nocompile", rec)
        ck.violation(vec_key("regexp does not compile:", v), rec); return
    im = impl_set(r, n)
    rec["impl"] = {"rx": r["rx"], "matches": show(im, subj, extra)}
    if v["fam"] == "unanch" and "s_acc" in r and not v["malformed"]:
        # the same pattern without EntireString: the expression searches (ShGlob!SearchSetOf)
        ck.cov["evaluations"] += 1
        want = frozenset(v["accs"])
        got = frozenset(r["s_acc"]) if not (r.get("s_err") or r.get("s_compile_err")) else None
        if got != want:
            ck.violation(vec_key("search (no EntireString) differs:", v),
                         dict(rec, search={"rx": r.get("s_rx"), "error": r.get("s_err") or r.get("s_compile_err"),
                                           "impl": sorted(got) if got is not None else None, "spec": sorted(want)}))
            return
    if im == sp and (b is None or b == on(sp)):
        if v.get("nontrivial"):
            ck.sample({"pattern": pat, "mode": modekey(v["mode"]), "regexp": r["rx"],
                       "matches": show(sp, subj, extra)[:12], "bash_agrees": b is not None})
        return
    if loose and (im == sp or (b is not None and on(im) == b)):
        return   # a construct with undefined meaning: either reading is accepted
    if b is not None and on(im) == b and b != on(sp) and (mask is None or im - mask == sp - mask):
        dump("drift", rec)
        ck.drift(rec); return
    rec["spec_agrees_with_bash"] = (b is None or b == on(sp))
    rec["impl_agrees_with_bash"] = (b is None or b == on(im))
    rec["diff_impl_only"] = show(im - sp, subj, extra)
    rec["diff_impl_missing"] = show(sp - im, subj, extra)
    # Named deviations with an alternative semantics defined in the spec (ShGlob!Devs): reported under
    # the deviation's name only when the code computes exactly what the deviation says it computes.
    alt = v.get("alt") or {}
    if alt.get("on") and im == spec_set(alt, n):
        for d in sorted(set(v["devs"]) & ALT_DEVS):
            ck.violation("Dev_" + d, rec)
        dump("dev", rec)
        return
    trig = sorted(set(v["devs"]) & TRIGGER_DEVS)
    if trig:
        for d in trig:
            ck.violation("Dev_" + d, rec)
        dump("dev", rec)
        return
    # deviation with a scope: the code may differ from the spec only on the subjects in v["scope"],
    # and there bash must side with the spec
    if "leadingdot" in v["devs"] and (im ^ sp) <= frozenset(v["scope"]) and (b is None or b == on(sp)):
        ck.violation("Dev_leadingdot", rec)
        dump("dev", rec)
        return
    dump("differs", rec)
    ck.violation(vec_key("language differs:", v), rec)


# families whose vectors are also run as `case` programs in the real interpreter, which always
# matches with EntireString|ExtendedOperators: the mode whose language that is for the family's alphabet
INTERP_FAMS = {"core": {"EntireString"}, "core1": {"EntireString"}, "brk": {"EntireString"}, "cls": {"EntireString"}, "clsall": {"EntireString"}, "utf": {"EntireString"},
               "ext": {"EntireString", "ExtendedOperators"}, "extop": {"EntireString", "ExtendedOperators"},
               "extbr": {"EntireString", "ExtendedOperators"}, "extmix": {"EntireString", "ExtendedOperators"}}


def interp_program(pat, subjects, extra):
    src = ("S=(" + " ".join(q(x) for x in subjects) + ")\np=" + q(pat) + "\nr=\n"
           + 'for s in "${S[@]}"' + "".join(" " + q(x) for x in extra)
           + '; do case $s in $p) r+=1;; *) r+=0;; esac; done\nprintf %s "$r"\n')
    return src.encode("utf-8").decode("latin-1")


def judge_interp(ck, v, ir, b, subjects):
    """The same vector through interp's `case` (internal.ExtendedPatternMatcher; errors mean no match)."""
    subj = subjects[v["fam"]]
    n = len(subj)
    extra = [text(x) for x in v["xsubj"]]
    pat = text(v["pat"])
    ck.cov["evaluations"] += 1
    ck.notes["interp_case_programs"] = ck.notes.get("interp_case_programs", 0) + 1
    rec = {"vector": dict(v, subjects=subjects_raw_of(subjects, v["fam"])), "level": "interp", "pattern": pat,
           "mode": modekey(v["mode"])}
    sp = spec_set(v, n)
    rec["spec"] = {"matches": show(sp, subj, extra), "malformed": v["malformed"], "devs": v["devs"]}
    if ir.get("panic"):
        rec["impl"] = {"panic": ir["panic"], "stack": ir.get("stack", "")}
        site = (ir.get("stack") or "?").split(" | ")[0].split("(")[0]
        if "unclosed-group" in v["malformed"]:
            ck.violation("Dev_unclosedgroup_panic", rec)
        else:
            ck.violation("interp panic at %s: pat=%s" % (site, json.dumps(pat)), rec)
        dump("dev" if "unclosed-group" in v["malformed"] else "ipanic", rec)
        return
    out = ir.get("out", "")
    if ir.get("parse_error") or ir.get("timeout") or len(out) != n + len(extra) or set(out) - {"0", "1"}:
        raise vlib.Inconclusive("interp case program gave no usable answer for %r: %r" % (pat, ir))
    im = bits_to_set(out)
    rec["impl"] = {"matches": show(im, subj, extra)}
    if b is not None and not v.get("quirks"):
        b = b[0]
        rec["bash"] = {"matches": show(b, subj, extra)}
    else:
        b = None
    if im == sp and (b is None or b == sp):
        return
    if not im and (v["malformed"] or set(v["devs"]) & set(ERR_DEVS) - {"negext"}):
        ck.notes["interp_no_match_on_rejected_pattern"] = ck.notes.get("interp_no_match_on_rejected_pattern", 0) + 1
        return
    if set(v["malformed"]) & LOOSE_MALFORMED and (im == sp or (b is not None and im == b)):
        return   # a construct with undefined meaning: either reading is accepted
    if b is not None and im == b and b != sp:
        dump("drift", rec); ck.drift(rec); return
    rec["diff_impl_only"] = show(im - sp, subj, extra)
    rec["diff_impl_missing"] = show(sp - im, subj, extra)
    alt = v.get("alt") or {}
    if "negext" in v["devs"] and not v.get("negsimple") and not im:
        # internal/pattern.go: "Only a single !(...) group with fixed-string prefix and suffix is supported":
        # any other shape is an error there, which `case` turns into "no match"
        ck.violation("Dev_negext_matcher", rec); dump("dev", rec); return
    if "negext" in v["devs"] and not v.get("negsimple"):
        # ... but when the rest of the pattern has no `* ? [` the matcher takes it for a fixed string,
        # extended operators included (`@()!()` then matches only text starting with "@()")
        ck.violation("Dev_negext_matcher_affix", rec); dump("dev", rec); return
    if alt.get("on") and im == spec_set(alt, n):
        for d in sorted(set(v["devs"]) & ALT_DEVS):
            ck.violation("Dev_" + d, rec)
        dump("dev", rec); return
    trig = sorted(set(v["devs"]) & (TRIGGER_ERR_DEVS if not im else TRIGGER_DEVS))
    if trig:
        for d in trig:
            ck.violation("Dev_" + d, rec)
        dump("dev", rec); return
    if "unclosed-group" in v["malformed"]:
        ck.violation("Dev_unclosedgroup_matcher", rec); dump("dev", rec); return
    dump("idiffers", rec)
    ck.violation(vec_key("interp case differs:", v), rec)


def dev_explains(ck, v, im, n, rec):
    """Is a difference between code and spec exactly a named deviation with an alternative semantics?"""
    alt = v.get("alt") or {}
    if alt.get("on") and im == spec_set(alt, n):
        for d in sorted(set(v["devs"]) & ALT_DEVS):
            ck.violation("Dev_" + d, rec)
        return True
    return False


def run_interp_level(ck, h, vecs, bres, subjects):
    sel = [i for i, v in enumerate(vecs) if INTERP_FAMS.get(v["fam"]) == set(v["mode"])]
    # every pattern with a complete extended group, and a seeded sample of the others
    # (the interpreter compiles the pattern once per `case`, ~100 times per program)
    groups = [i for i in sel if vecs[i].get("hasgroup")]
    rest = [i for i in sel if not vecs[i].get("hasgroup")]
    ck.rng.shuffle(rest)
    sel = sorted(groups + rest[:400 if ck.tier == "quick" else 2500])
    progs = [{"src": interp_program(text(vecs[i]["pat"]), subjects[vecs[i]["fam"]], [text(x) for x in vecs[i]["xsubj"]]),
              "timeout_ms": 20000} for i in sel]
    res = vlib.run_harness(h, "interp", progs, shards=8)
    for i, ir in zip(sel, res):
        judge_interp(ck, vecs[i], ir, bres[i], subjects)


def _phase(ck, name, t0):
    import time
    ph = ck.notes.setdefault("phase_s", {})
    ph[name] = round(ph.get(name, 0) + time.time() - t0, 1)
    return time.time()


def evaluate(ck, h, vecs, subjects_raw, interp=True):
    import time
    t0 = time.time()
    subjects = {f: [text(x) for x in lst] for f, lst in subjects_raw.items()}
    res = run_go(h, vecs, subjects_raw)
    t0 = _phase(ck, "go_regexp", t0)
    bres = bash_oracle(vecs, subjects)
    t0 = _phase(ck, "bash", t0)
    ck.notes["bash_cross_checked"] = ck.notes.get("bash_cross_checked", 0) + sum(1 for b in bres if b is not None)
    for v, r, b in zip(vecs, res, bres):
        judge(ck, v, r, b, subjects)
    t0 = _phase(ck, "judge", t0)
    if interp:
        run_interp_level(ck, h, vecs, bres, subjects)
        _phase(ck, "interp", t0)


def run_families(ck, cfgs, prop, sim=None):
    """cfgs: exhaustive TLC runs (BFS); sim: (cfg, behaviours, depth) for a seeded random run of the
    same Next (longer patterns)."""
    h = vlib.build_harness("glob")
    seen = set()
    exhaustive = 0
    for cfg in cfgs:
        t = vlib.run_tlc("ShGlob", cfg, workers=8, timeout=1500)
        ck.add_tlc(t)
        if not t.ok:
            raise vlib.Inconclusive("ShGlob: the contract model is inconsistent:\n" + (t.violation or t.raw_tail))
        vecs = t.vecs.get("VEC", [])
        if len(vecs) != t.distinct:
            raise vlib.Inconclusive("ShGlob %s: %d vectors for %d distinct states" % (cfg, len(vecs), t.distinct))
        subjects_raw = {s["fam"]: s["subjects"] for s in t.vecs.get("STAT", [])}
        for v in vecs:
            seen.add((v["fam"], modekey(v["mode"]), tuple(v["pat"])))
        exhaustive += len(vecs)
        evaluate(ck, h, vecs, subjects_raw)
        del vecs, t
    ck.notes["exhaustive_vectors"] = exhaustive
    if sim:
        cfg, num, depth = sim
        t = vlib.run_tlc("ShGlob", cfg, simulate=num, depth=depth, seed=ck.seed, timeout=900)
        ck.add_tlc(t)
        if not t.ok:
            raise vlib.Inconclusive("ShGlob (simulation): the contract model is inconsistent:\n" + (t.violation or t.raw_tail))
        subjects_raw = {s["fam"]: s["subjects"] for s in t.vecs.get("STAT", [])}
        vecs = []
        for v in t.vecs.get("VEC", []):
            k = (v["fam"], modekey(v["mode"]), tuple(v["pat"]))
            if k not in seen and v["fam"] in subjects_raw:
                seen.add(k)
                vecs.append(v)
        ck.notes["simulated_new_vectors"] = len(vecs)
        if vecs:
            evaluate(ck, h, vecs, subjects_raw)
    ck.cov["exhaustive"] = True
    ck.cov["rule"] = ("one vector per TLC state = (family, mode set, pattern): every pattern of at most maxt+TokBoost tokens over "
                      "the family's token alphabet (BFS, exhaustive) plus seeded random longer patterns (-simulate); each vector is "
                      "matched against all subjects of the family (+ the pattern text and its unescaped text); evaluations = "
                      "pattern.Regexp runs + interp `case` programs; non-trivial = the pattern has an active metacharacter and "
                      "matches some but not all subjects (spec field `nontrivial`, counted once per vector)")
    ck.assumptions += [
        "subjects bounded per family (ShGlob!FamDef: all strings over sa up to sn, over la up to ln)",
        "bash 5.2.15, LC_ALL=C.utf8: `case` with extglob off/on and nocasematch for the non-Filenames modes; real pathname "
        "expansion (nullglob, dotglob, globstar, nocaseglob) in a directory tree of the materialisable subjects for Filenames modes",
        "Filenames modes: bash answers only for normalised relative paths; other subjects are spec-vs-code only",
        "bash is not used as oracle where ShGlob!Quirks applies (star directly before a @( +( !( group)",
        "unclosed extended groups are undefined (spec: malformed `unclosed-group`): error, the spec's or bash's reading accepted",
        "Shortest only with EntireString here (language must not change); prefix/suffix removal is C21's subject",
    ]


def replay(ck, rec, prop):
    """Re-run one recorded vector (it carries its own subject universe) through all bindings."""
    h = vlib.build_harness("glob")
    v = dict(rec["vector"])
    subjects_raw = {v["fam"]: v.pop("subjects")}
    evaluate(ck, h, [v], subjects_raw)
    for d in ck.drifts:     # the code and bash agree with each other but not with the recorded expectation
        print("SPEC-DRIFT property=%s pattern=%s mode=%s spec=%s impl=bash=%s" % (
            prop, json.dumps(d.get("pattern")), d.get("mode"), d["spec"]["matches"][:8], d["impl"].get("matches", [])[:8]))
