# C22 Field splitting and quote removal match bash.  Spec: ShFields (Style F).
# TLC enumerates (word, IFS, values, positional parameters), checks the laws of the contract and
# emits one vector per complete state with the fields the spec requires (and, for the named
# deviations, what the code is known to produce instead).  Each vector is
#   (a) run as `IFS=..; v=..; set -- ..; p WORD` by the real interpreter (generic interp engine),
#   (b) expanded by expand.Fields directly with a Config (engine "fields"),
#   (c) run by bash 5.2 (LC_ALL=C.utf8) -- three-way verdict of DESIGN section 3.
# Python only renders assignments, concatenates and compares.
import json, os
import vlib

LEVEL = "model_checking"

PRE = "p() { printf '%s:' \"$#\"; if [ $# -gt 0 ]; then printf '<%s>' \"$@\"; fi; }\n"


def raw(text):
    """spec text -> the bytes of its UTF-8 encoding, as a latin-1 str (what harness and batcher take)."""
    return vlib.unchars(text).encode("utf-8").decode("latin-1")


def sq(s):
    return "'" + s.replace("'", "'\\''") + "'"


def assignments(v):
    a = []
    if v["ifs"]["set"]:
        a.append("IFS=" + sq(raw(v["ifs"]["val"])))
    if v["v"]["set"]:
        a.append("v=" + sq(raw(v["v"]["val"])))
    if v["w"]["set"]:
        a.append("w=" + sq(raw(v["w"]["val"])))
    if v["params"]:
        a.append("set -- " + " ".join(sq(raw(p)) for p in v["params"]))
    return "; ".join(a) + ("; " if a else "")


def body(v):
    return assignments(v) + "p " + raw(v["src"])


def fmt(fields):
    return "%d:" % len(fields) + "".join("<%s>" % f for f in fields)


def describe(v):
    return "IFS=%s v=%s w=%s params=%s word=%s" % (
        json.dumps(raw(v["ifs"]["val"])) if v["ifs"]["set"] else "unset",
        json.dumps(raw(v["v"]["val"])) if v["v"]["set"] else "unset",
        json.dumps(raw(v["w"]["val"])) if v["w"]["set"] else "unset",
        json.dumps([raw(p) for p in v["params"]]), raw(v["src"]))


def dev_key(v, got_fields):
    """Name of the smallest known deviation set whose prediction equals what the code produced."""
    for d in v["devs"]:
        if [raw(f) for f in d["exp"]] == got_fields:
            return "Dev_" + "+".join(d["n"])
    return None


def parse_out(out):
    """`n:<f1><f2>` -> list of fields (alphabet has no < or >), or None."""
    try:
        n, rest = out.split(":", 1)
        n = int(n)
    except ValueError:
        return None
    if n == 0:
        return [] if rest == "" else None
    if not (rest.startswith("<") and rest.endswith(">")):
        return None
    fs = rest[1:-1].split("><")
    return fs if len(fs) == n else None


def evaluate(ck, vecs, h, use_bash=True):
    from concurrent.futures import ThreadPoolExecutor
    with ThreadPoolExecutor(max_workers=3) as ex:     # the three bindings run side by side
        f_i = ex.submit(vlib.run_harness, h, "shfast", [{"src": PRE + body(v) + "\n"} for v in vecs], shards=8)
        f_d = ex.submit(vlib.run_harness, h, "fields", [
            {"src": raw(v["src"]), "ifs": {"set": v["ifs"]["set"], "val": raw(v["ifs"]["val"])},
             "v": {"set": v["v"]["set"], "val": raw(v["v"]["val"])},
             "w": {"set": v["w"]["set"], "val": raw(v["w"]["val"])},
             "params": [raw(p) for p in v["params"]]} for v in vecs], shards=4)
        f_b = ex.submit(vlib.run_shell_evals, ["unset IFS v w; set --; " + body(v) for v in vecs], prelude=PRE,
                        locale="C.utf8", jobs=4, per_process=4000) if use_bash else None
        ires, dres = f_i.result(), f_d.result()
        bres = f_b.result() if f_b else [None] * len(vecs)
    for v, ir, dr, br in zip(vecs, ires, dres, bres):
        spec_f = [raw(f) for f in v["exp"]]
        spec = fmt(spec_f)
        if v.get("corrupt"):
            spec_f = spec_f + ["corrupted"]; spec = fmt(spec_f)
        bash = None
        if br is not None and not v["bashquirk"] and not v.get("corrupt"):   # a corrupted expectation is judged against the code alone
            bash = br["out"]
        else:
            ck.notes["bash_skipped_bashquirk"] = ck.notes.get("bash_skipped_bashquirk", 0) + 1
        if v["nontrivial"]:
            ck.cov["distinct_nontrivial"] += 1
        where = describe(v)
        for eng, got, got_f in (("interp", None, None), ("expand.Fields", None, None)):
            ck.cov["evaluations"] += 1
            if eng == "interp":
                if ir.get("panic"):
                    ck.violation("panic in interp: %s [%s]" % (ir["panic"][:80], where), {"vector": v, "impl": ir}); continue
                got = ir["out"] if ir["status"] == 0 and not ir.get("parse_error") else "status=%s %s%s" % (
                    ir["status"], ir.get("parse_error", ""), ir.get("run_error", ""))
                got_f = parse_out(ir["out"]) if ir["status"] == 0 else None
            else:
                if "panic" in dr:
                    ck.violation("panic in expand.Fields: %s [%s]" % (dr["panic"][:80], where), {"vector": v, "impl": dr}); continue
                if "harness_error" in dr:
                    raise vlib.Inconclusive(dr["harness_error"])
                got_f = dr["fields"] if not dr.get("err") else None
                got = fmt(dr["fields"]) if not dr.get("err") else "error: " + dr["err"]
            ck.cov["traces_validated_against_impl"] += 1
            if got == spec and (bash is None or bash == spec):
                continue
            rec = {"vector": v, "engine": eng, "script": body(v), "spec": spec, "impl": got, "bash": bash}
            if bash is not None and got == bash and bash != spec:
                ck.drift(rec); continue
            key = None
            if got_f is not None and got != spec and (bash is None or bash == spec):
                key = dev_key(v, got_f)
            if key is None:
                key = "%s: %s" % (eng, where)
            rec["spec_agrees_with_bash"] = (bash is None or bash == spec)
            ck.violation(key, rec)
        if v["nontrivial"] and bash is not None:
            ck.sample({"script": body(v), "spec": spec, "interp": ir.get("out"), "bash": bash}, cap=4)


def vec_id(v):
    return json.dumps([v["toks"], v["ifs"], v["v"], v["w"], v["params"]])


def run(ck):
    h = vlib.build_harness("fields")
    quick = ck.tier == "quick"
    cfg = "ShFields.%s.cfg" % ck.tier
    t = vlib.run_tlc("ShFields", cfg, workers=8 if quick else 16, timeout=3000)
    ck.add_tlc(t)
    if not t.ok:
        raise vlib.Inconclusive("ShFields: the contract model violates its own laws:\n" + (t.violation or t.raw_tail))
    vecs = t.vecs.get("VEC", [])
    ck.notes["vectors_exhaustive"] = len(vecs)
    # seeded random longer words from the same Next (words of weight 4..6, all menus)
    nsim = 300 if quick else 3000
    ts = vlib.run_tlc("ShFields", "ShFields.sim.cfg", simulate=nsim, depth=16, seed=ck.seed, timeout=3000)
    ck.add_tlc(ts)
    if not ts.ok:
        raise vlib.Inconclusive("ShFields (simulation): the contract model violates its own laws:\n" + (ts.violation or ts.raw_tail))
    seen = set()
    sim = []
    for v in ts.vecs.get("VEC", []):
        k = vec_id(v)
        if k not in seen:
            seen.add(k); sim.append(v)
    ck.notes["vectors_simulated"] = len(sim)
    ck.cov["exhaustive"] = True
    ck.cov["rule"] = ("every word within the token bound x every menu environment, plus every raw value up to the "
                      "length bound for single-expansion words (TLC BFS, one vector per complete state), plus distinct "
                      "vectors of seeded -simulate runs with words of weight 4..6; each vector = 2 evaluations (interp, "
                      "expand.Fields), both also compared with bash; distinct_nontrivial = vectors for which the spec "
                      "requires a number of fields other than 1")
    ck.assumptions += ["bash 5.2.15 in LC_ALL=C.utf8 as the reference shell",
                       "vectors that hit one of the three bash defects (ShFields!BashQuirk) "
                       "are compared with the spec only (counted in bash_skipped_bashquirk)",
                       "command substitutions are `$(printf %s \"$v\")` only"]
    allv = vecs + sim
    for o in range(0, len(allv), 60000):
        evaluate(ck, allv[o:o + 60000], h)


def replay(ck, rec):
    h = vlib.build_harness("fields")
    evaluate(ck, [rec["vector"]], h)
