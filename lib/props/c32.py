# C32 Concurrent shell features are race-free; `wait <job>` returns that job's status.
# Spec: ShConc (Style S).  TLC explores every interleaving of main and its jobs for every shape
# (spawn kind x job operation x main operation x position; 2..3 jobs x completion order x wait order),
# checks NoRace / WaitCorrect / TableWF / OwnDisjoint on the contract and emits one vector per
# (shape, schedule).  Each vector is rendered as a script (or as Runner.Subshell calls) and run in a
# -race build of harness/cmd/conc; the schedule is imposed by time.Sleep at the H12 yield points
# (table of time slots fixed before the run).  Verdicts: a data race reported by the Go race detector
# (stack pair in the replay file), a runtime fatal error (concurrent map access), a wait status or an
# output different from the spec's, a timeout or a panic.
import json, os, re, shutil, subprocess
import vlib

LEVEL = "model_checking"

SETUP = "v=0; a=(1 2 3); declare -A m=([k]=1 [j]=2); f() { :; }; alias q=y; set -- p1 p2 p3\n"
UNIT_US = 1500


def label(ev):
    if ev[0] == "spawn":
        return "main|s%d" % ev[1]
    if ev[0] == "op":
        return "main|m" if ev[1] == 0 else "%d|a" % ev[1]
    if ev[0] == "exit":
        return "%d|b" % ev[1]
    if ev[0] == "wait":
        return "main|w%d" % ev[1]
    if ev[0] == "waitall":
        return "main|wa"
    return None


def jobbody(j):
    if j["kind"] == "bgcmdsub":
        return "K=a; : \"$(%s)\"; K=b; exit %d" % (j["op"], j["st"])
    return "K=a; %s; K=b; exit %d" % (j["op"], j["st"])


def render(v):
    """One (shape, schedule) -> engine vector; with ctx == "func" the same script runs inside a function body
    (jobs started there sit on top of the caller's mutable scope instead of the read-only base environment)."""
    r = render_top(v)
    if v.get("ctx") == "func" and r["kind"] == "script":
        r = dict(r, src=SETUP + "main_() {\n" + r["src"][len(SETUP):] + "}\nmain_\n")
    return r


def render_top(v):
    """One (shape, schedule) -> engine vector.  Only concatenation of the texts the spec carries."""
    slots = {}
    for k, ev in enumerate(v["hist"]):
        l = label(ev)
        if l:
            slots[l] = k + 1
    jobs = v["jobs"]
    mop = "K=m; %s\n" % v["mop"]
    if v["family"] == "share":
        j = jobs[0]
        kind, during = j["kind"], v["mpos"] == "during"
        waits = "K=w1; wait $p1; echo \"w1=$?\"\nK=wa; wait; echo \"wa=$?\"\n"
        head = SETUP + "J=1; K=s1\n"
        if kind == "api":
            return {"kind": "api", "pre": head, "job": jobbody(j) + "\n", "main": mop if during else ":\n",
                    "post": ":\n" if during else mop, "slots": slots, "unit_us": UNIT_US}
        if kind in ("bg", "bgcmdsub"):
            src = head + "{ %s; } &\np1=$!\n" % jobbody(j) + (mop if during else "") + waits + ("" if during else mop)
        elif kind == "pipe":
            src = head + "{ %s; } | { %s }\n" % (jobbody(j), mop.replace("\n", "; ") if during else ":; ") + ("" if during else mop)
        elif kind in ("procin", "procout"):
            rd = "< <(%s)" if kind == "procin" else "> >(%s)"
            src = head + "{ %s } %s\np1=$!\n" % (mop.replace("\n", "; ") if during else ":; ", rd % jobbody(j)) + waits + ("" if during else mop)
        else:
            raise ValueError(kind)
        return {"kind": "script", "src": src, "slots": slots, "unit_us": UNIT_US}
    src = SETUP
    mid = mop if v["family"] == "share2" else ""
    for i, j in enumerate(jobs, 1):
        src += "J=%d; K=s%d\n" % (i, i)
        if j["kind"] == "bg":
            src += "{ %s; } &\np%d=$!\n" % (jobbody(j), i)
        else:
            src += ": > >(%s)\np%d=$!\n" % (jobbody(j), i)
    src += mid
    for w in v["worder"]:
        src += "K=w%d; wait $p%d; echo \"w%d=$?\"\n" % (w, w, w)
    src += "K=wa; wait; echo \"wa=$?\"\n"
    return {"kind": "script", "src": src, "slots": slots, "unit_us": UNIT_US}


def expected_lines(v):
    """The multiset of stdout lines the spec predicts (order is schedule-dependent, so sorted)."""
    lines = ["o"] * v["outs"]
    for w in v["waits"]:
        lines.append("wa=%d" % w[1] if w[0] == 0 else "w%d=%d" % (w[0], w[1]))
    return sorted(lines)


# ---------------------------------------------------------------------------------- running the -race harness
def run_race(binary, vecs, shards=16):
    """Like vlib.run_harness, but a shard process that dies (the Go runtime aborts on concurrent map
    access) yields a result {"fatal": stderr tail} for the vector it was running and is restarted after it."""
    work = vlib.scratch("c32-")
    results = [None] * len(vecs)
    try:
        def run_shard(k, idxs):
            pos = 0
            attempt = 0
            while pos < len(idxs):
                attempt += 1
                inp = os.path.join(work, "in%d_%d.ndjson" % (k, attempt))
                with open(inp, "w") as f:
                    for i in idxs[pos:]:
                        f.write(json.dumps(vecs[i]) + "\n")
                env = dict(os.environ)
                logp = os.path.join(work, "race%d_%d" % (k, attempt))
                env.update({"GORACE": "halt_on_error=0 log_path=" + logp, "VERIF_RACELOG": logp,
                            "VERIF_SCRATCH": work, "GOMAXPROCS": "4"})
                p = subprocess.run(["timeout", "1500", binary, "c32", inp], env=env, cwd=work,
                                   capture_output=True, text=True, errors="replace")
                outs = [json.loads(l) for l in p.stdout.splitlines() if l.strip().startswith("{")]
                for r in outs:
                    results[idxs[pos]] = r
                    pos += 1
                if p.returncode != 0 and pos < len(idxs):
                    if p.returncode == 124:
                        raise vlib.Inconclusive("c32 harness shard timed out")
                    results[idxs[pos]] = {"fatal": p.stderr[-3000:], "rc": p.returncode}
                    pos += 1
                elif p.returncode != 0:
                    # died after the last vector (e.g. race runtime exit code); keep the results
                    break
        from concurrent.futures import ThreadPoolExecutor
        shards = max(1, min(shards, len(vecs)))
        parts = [list(range(k, len(vecs), shards)) for k in range(shards)]
        with ThreadPoolExecutor(max_workers=shards) as ex:
            list(ex.map(lambda a: run_shard(*a), enumerate(parts)))
        if any(r is None for r in results):
            raise vlib.Inconclusive("c32 harness returned too few results")
        return results
    finally:
        shutil.rmtree(work, ignore_errors=True)


_fn_re = re.compile(r"^\s+((?:mvdan\.cc/sh/v3|verif/harness)\S*?)\(\)\s*$", re.M)


def race_frames(report):
    """Top interpreter frame of each of the two stacks of the first report (for the key)."""
    first = report.split("==================")[1] if "==================" in report else report
    blocks = re.split(r"\n(?=(?:Previous |)(?:read|write|atomic) )", first, flags=re.I)
    tops = []
    for b in blocks[:3]:
        if re.match(r"(?:WARNING: DATA RACE\n)?(?:Previous )?(?:read|write)", b.strip(), re.I):
            m = _fn_re.search(b)
            tops.append(m.group(1) if m else "?")
    return tops[:2]


def shape_key(v):
    return json.dumps([[(j["kind"], j["op"]) for j in v["jobs"]], v["mop"], v["mpos"]])


def shape_txt(v):
    return "jobs=%s main=%r %s%s" % (["%s{%s}" % (j["kind"], j["op"]) for j in v["jobs"]], v["mop"], v["mpos"],
                                     " inside a function" if v.get("ctx") == "func" else "")


def judge(ck, v, r, stats):
    ck.cov["evaluations"] += 1
    rec = {"vector": v, "rendered": render(v), "impl": r}
    sk = shape_txt(v)
    if r.get("fatal"):
        m = re.search(r"fatal error: ([^\n]+)", r["fatal"])
        ck.violation("runtime fatal error (%s) %s" % (m.group(1) if m else "process died", sk), rec); return
    if r.get("panic"):
        ck.violation("panic %s: %s" % (r["panic"][:80], sk), rec); return
    if r.get("timeout") or r.get("run_error"):
        ck.violation("timeout/run error %s" % sk, rec); return
    ck.cov["traces_validated_against_impl"] += 1
    if r.get("races"):
        stats["raced"] += 1
        tops = race_frames(r.get("report", ""))
        key = "data race %s: %s" % (" / ".join(tops), sk)
        ck.violation(key, dict(rec, frames=tops)); return
    got = sorted(l for l in r["out"].split("\n") if l)
    exp = expected_lines(v)
    if got != exp:
        ck.violation("wait status / output differs from the spec: %s hist=%s" % (sk, json.dumps(v["hist"])),
                     dict(rec, spec=exp, got=got)); return
    conc = v["mpos"] == "during" and v["mcls"] != "none" and any(j["cls"] == v["mcls"] for j in v["jobs"])
    if conc or len(v["jobs"]) > 1:
        stats["nontrivial"].add(shape_key(v) + json.dumps(v["hist"]))
        ck.sample({"shape": sk, "schedule": v["hist"], "stdout_sorted": got}, cap=4)


def tlc(ck, cfg, **kw):
    t = vlib.run_tlc("ShConc", cfg, timeout=1500, **kw)
    ck.add_tlc(t)
    return t


def need_ok(t, cfg):
    if not t.ok:
        raise vlib.Inconclusive("ShConc (%s): the contract model is inconsistent:\n%s" % (cfg, t.violation or t.raw_tail))
    return t


def self_tests(ck):
    """The model must be able to fail: the in-place write breaks NoRace, and it does so exactly on the
    shapes of the Trigger predicate that is used to recognise the known finding."""
    bt = tlc(ck, "ShConc.buggy.cfg", workers=4, tags=())
    if bt.ok or "NoRace" not in (bt.violation or ""):
        raise vlib.Inconclusive("self-test: Buggy=TRUE did not violate NoRace")
    d = need_ok(tlc(ck, "ShConc.dev.cfg", workers=8), "dev")
    by = {}
    for x in d.vecs.get("VEC", []):
        e = by.setdefault(shape_key(x), [False, x["trigger"]])
        e[0] = e[0] or x["raced"]
    if not by or any(a != b for a, b in by.values()):
        raise vlib.Inconclusive("self-test: Trigger does not characterise the racing shapes of the Buggy model")
    need_ok(tlc(ck, "ShConc.dev2.cfg", workers=16, tags=()), "dev2")
    ck.notes["selftests"] = {"buggy_violates_NoRace": True, "trigger_shapes": sum(1 for a, b in by.values() if b),
                             "TriggerSound_share2": True}


def run(ck):
    h = vlib.build_harness("conc", race=True)
    quick = ck.tier == "quick"
    if not quick:
        self_tests(ck)
    share = need_ok(tlc(ck, "ShConc.%s.cfg" % ck.tier, workers=4 if quick else 8), "share").vecs.get("VEC", [])
    jobs = need_ok(tlc(ck, "ShConc.jobs3.cfg", workers=4 if quick else 8), "jobs").vecs.get("VEC", [])
    vecs = []
    if quick:
        # the share family has up to three schedules per shape: quick runs, per shape, the one picked by the
        # seed; of the 2..3-job shapes x schedules a seeded sample
        by = {}
        for v in share:
            by.setdefault(shape_key(v), []).append(v)
        for i, k in enumerate(sorted(by)):
            vecs.append(by[k][(ck.seed + i) % len(by[k])])
        two = [v for v in jobs if len(v["jobs"]) == 2]
        three = [v for v in jobs if len(v["jobs"]) == 3]
        ck.rng.shuffle(three)
        vecs += two + three[:300]
    else:
        vecs = share + jobs
        sim = need_ok(tlc(ck, "ShConc.share2.cfg", simulate=3000, depth=12, seed=ck.seed), "share2")
        seen = set()
        for v in sim.vecs.get("VEC", []):
            k = shape_key(v) + json.dumps(v["hist"])
            if k not in seen:
                seen.add(k)
                vecs.append(v)
        ck.notes["share2_simulated"] = len(seen)
    # the one-job sharing shapes whose main operation runs during the job are run a second time inside a function
    infunc = [dict(v, ctx="func") for v in vecs if v["family"] == "share" and v["jobs"][0]["kind"] != "api" and v["mpos"] == "during"]
    vecs = vecs + infunc
    ck.notes["vectors"] = len(vecs)
    ck.notes["vectors_inside_a_function"] = len(infunc)
    res = run_race(h, [render(v) for v in vecs])
    stats = {"raced": 0, "nontrivial": set()}
    for v, r in zip(vecs, res):
        judge(ck, v, r, stats)
    ck.cov["distinct_nontrivial"] = len(stats["nontrivial"])
    # the one-job and the 2..3-job families are run completely in the thorough tier, the two-job sharing family
    # (share2) is sampled by simulation, quick picks one schedule per one-job shape: not exhaustive as a whole
    ck.cov["exhaustive"] = False
    ck.notes["families_run_completely"] = [] if quick else ["share", "jobs"]
    ck.cov["rule"] = ("TLC BFS over ShConc: every shape (6 spawn kinds x 18 job operations x 18 main operations x during/after; "
                      "2..3 jobs of kinds &/>( ) x every wait order) and every interleaving of its events, one vector per terminal "
                      "state (quick: one seed-picked schedule per one-job shape, all two-job and 300 sampled three-job vectors; "
                      "thorough: all of them plus simulated two-job sharing shapes); evaluation = one run in the -race build with the "
                      "schedule imposed by sleeps at H12 points; non-trivial = distinct (shape, schedule) whose main and job operations "
                      "touch the same class of state concurrently, or with several jobs, that ran without race report and with the "
                      "spec's wait statuses and output")
    ck.notes.update({"race_reports": stats["raced"], "slot_unit_us": UNIT_US})
    ck.assumptions += ["the Go race detector only sees accesses that execute; sleeps perturb but do not guarantee the schedule",
                       "stdout/stderr are *os.File (interp requires concurrency-safe writers); their internal locks add happens-before edges between writers",
                       "hook H12 (build tag verif) and VerifVar are trusted not to change behaviour"]


def replay(ck, rec):
    h = vlib.build_harness("conc", race=True)
    v = rec["vector"]
    r = run_race(h, [render(v)], shards=1)[0]
    judge(ck, v, r, {"raced": 0, "nontrivial": set()})
