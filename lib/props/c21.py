# C21 Parameter expansion matches bash.  Spec: ShParam (Style F).
# TLC enumerates (store, parameter, operator, arguments, quoted?) inputs, checks the contract's own
# laws on every one and emits one vector per state: the word (rendered by the spec), the fields
# bash must produce and the value of the variable afterwards.  Each vector is one shell program
#     <setup of the store>; n WORD; <dump of x>
# run by the real interpreter (generic `interp` engine) and by bash; three-way verdict.
# This file only renders the store as assignments, concatenates, runs and compares.
import json, re
import vlib

LEVEL = "model_checking"

SYM = {"NL": "\n", "TAB": "\t"}


def txt(a):
    return "".join(SYM.get(c, c) for c in a)


def sq(s):
    """One shell word for a value.  Values with a single quote or a control character are written as
    $'...' : the '\\'' idiom cannot be used because /repo keeps the backslash of \\' in assignments
    (a defect outside this property, reported to the coordinator)."""
    if "'" in s or any(ord(c) < 32 for c in s):
        return vlib.bash_dollar_quote(s)
    return vlib.shquote(s)


PRELUDE = ("n() { printf '%d' $#; printf '<%s>' \"$@\"; echo; }\n"
           "Ds() { printf '%s|%s\\n' \"${x+set}\" \"${x-}\"; }\n"
           "Da() { printf '<%s>' \"${!x[@]}\"; printf '|'; printf '<%s>' \"${x[@]}\"; echo; }\n")
AUX = "unset x u; y='p q'; e=''; w=(m 'n o'); zq1=1; zq2=''; zqa=(1 2)\n"


def decl(x):
    k = x["k"]
    if k == "unset":
        return ""
    if k == "str":
        return "x=%s\n" % sq(txt(x["s"]))
    if k == "idx":
        return "x=(%s)\n" % " ".join("[%d]=%s" % (i, sq(txt(v))) for i, v in zip(x["ikeys"], x["vals"]))
    if k == "assoc":
        return "declare -A x=(%s)\n" % " ".join("[%s]=%s" % (txt(i), sq(txt(v))) for i, v in zip(x["akeys"], x["vals"]))
    raise ValueError(k)


def setup(store):
    s = AUX + decl(store["x"])
    s += "set --" + "".join(" " + sq(txt(p)) for p in store["params"]) + "\n"
    s += "IFS=%s\n" % vlib.bash_dollar_quote(txt(store["ifs"]))
    return s


def fmt(lst):
    return "".join("<%s>" % e for e in lst) if lst else "<>"


def dump_cmd(after):
    return "Ds" if after["k"] in ("unset", "str") else "Da"


def dump_expected(after):
    k = after["k"]
    if k == "unset":
        return "|\n"
    if k == "str":
        return "set|%s\n" % txt(after["s"])
    keys = [str(i) for i in after["ikeys"]] if k == "idx" else [txt(t) for t in after["akeys"]]
    return "%s|%s\n" % (fmt(keys), fmt([txt(v) for v in after["vals"]]))


def body(v):
    return setup(v["store"]) + "n " + txt(v["word"]) + " && " + dump_cmd(v["after"]) + "\n"


def expected(v):
    """(stdout, failed) the spec defines for a vector (or for one of its deviation candidates)."""
    if v["err"]:
        return ("", True)
    fs = [txt(f) for f in v["fields"]]
    return ("%d%s\n" % (len(fs), fmt(fs)) + dump_expected(v["after"]), False)


def dev_name(v, impl):
    """Name of the known deviation(s) (switches of ShParam!Sem) whose predicted output equals the
    implementation's, or None."""
    for d in sorted(v.get("devs", []), key=lambda d: (len(d["name"]), sorted(d["name"]))):
        out, failed = expected(d)
        if v["after"]["k"] in ("idx", "assoc") and d["after"]["k"] in ("unset", "str") or \
           v["after"]["k"] in ("unset", "str") and d["after"]["k"] in ("idx", "assoc"):
            continue  # the dump command was chosen for the contract's kind; not comparable
        if (canon(out, v["unord"]), failed) == impl:
            return "Dev_" + "+".join(sorted(d["name"]))   # the smallest set of deviations that explains it
    return None


_grp = re.compile(r"(?:<[^<>]*>)+")


def canon(out, unord):
    """Associative arrays with several keys have no defined order: sort each run of <..> groups."""
    if not unord:
        return out
    return _grp.sub(lambda m: "".join(sorted(re.findall(r"<[^<>]*>", m.group(0)))), out)


def key_of(v):
    return "%s %s after %s" % ("quoted" if v["quoted"] else "unquoted", txt(v["word"]),
                               json.dumps(setup(v["store"])[len(AUX):]))


def bash_interactive_evals(snippets, prelude):
    """Like vlib.run_shell_evals, for snippets that are expected to hit an expansion error.  Such an
    error makes a non-interactive bash exit, so each would need its own subshell (one fork each; forks
    are the scarce resource here).  An interactive bash only abandons the current command, so all of
    them run in ONE `bash -i` process (history expansion and job control off).  Anything that does not
    come back is re-run by vlib.run_shell_evals(isolate=True)."""
    import os, random, shutil, subprocess
    tok = "%08x" % random.getrandbits(32)
    work = vlib.scratch("shi-")
    results = [None] * len(snippets)
    try:
        d = os.path.join(work, "d")
        os.makedirs(d)
        lines = ["set +H +m", prelude]
        for i, sn in enumerate(snippets):
            lines.append("printf '\\036B%s:%d\\037'; eval %s 2>/dev/null </dev/null; printf '\\036E%s:%d:%%d\\037' $?" % (
                tok, i, vlib.bash_dollar_quote(sn.encode("latin-1", "replace")), tok, i))
        sp = os.path.join(work, "s.sh")
        with open(sp, "wb") as f:
            f.write(("\n".join(lines) + "\n").encode("latin-1", "replace"))
        env = {"PATH": "/usr/local/sbin:/usr/local/bin:/usr/sbin:/usr/bin:/sbin:/bin", "LC_ALL": "C", "HOME": work, "TMPDIR": work}
        try:
            p = subprocess.run(["bash", "--norc", "--noprofile", "-i", sp], cwd=d, env=env, stdin=subprocess.DEVNULL,
                               stdout=subprocess.PIPE, stderr=subprocess.DEVNULL, timeout=300)
            text = p.stdout.decode("latin-1")
        except subprocess.TimeoutExpired as e:
            text = (e.stdout or b"").decode("latin-1")
        pat = re.compile("\x1eB%s:(\\d+)\x1f(.*?)\x1eE%s:\\1:(-?\\d+)\x1f" % (tok, tok), re.S)
        for m in pat.finditer(text):
            results[int(m.group(1))] = {"out": m.group(2), "rc": int(m.group(3))}
    finally:
        shutil.rmtree(work, ignore_errors=True)
    missing = [i for i, r in enumerate(results) if r is None]
    if missing:
        rs = vlib.run_shell_evals([snippets[i] for i in missing], prelude=prelude, isolate=True)
        for i, r in zip(missing, rs):
            results[i] = r
    return results


def run_bash(vecs):
    plain = [i for i, v in enumerate(vecs) if not v["err"]]
    errs = [i for i, v in enumerate(vecs) if v["err"]]
    bres = [None] * len(vecs)
    if plain:
        for i, r in zip(plain, vlib.run_shell_evals([body(vecs[i]) for i in plain], prelude=PRELUDE)):
            bres[i] = r
    if errs:
        for i, r in zip(errs, bash_interactive_evals([body(vecs[i]) for i in errs], PRELUDE)):
            bres[i] = r
    return bres


def evaluate(ck, vecs, h, collect=None):
    skipped = [v for v in vecs if not v.get("scope", True)]
    vecs = [v for v in vecs if v.get("scope", True)]
    ck.notes["out_of_scope_skipped"] = ck.notes.get("out_of_scope_skipped", 0) + len(skipped)
    progs = [{"src": PRELUDE + body(v)} for v in vecs]
    ires = vlib.run_harness(h, "pexp", progs, shards=8)
    bres = run_bash(vecs)
    for v, ir, br in zip(vecs, ires, bres):
        ck.cov["evaluations"] += 1
        key = key_of(v)
        rec = {"vector": v, "program": body(v)}
        if ir.get("panic"):
            ck.violation("panic " + key, dict(rec, impl=ir))
            continue
        if ir.get("parse_error"):
            impl = ("", True)
        else:
            impl = (canon(ir["out"], v["unord"]), ir["status"] != 0)
        ck.cov["traces_validated_against_impl"] += 1
        if v["nontrivial"]:
            ck.cov["distinct_nontrivial"] += 1
        spec = expected(v)
        spec = (canon(spec[0], v["unord"]), spec[1])
        bash = None if br is None else (canon(br["out"], v["unord"]), br["rc"] != 0)
        if collect is not None:
            collect.append((v, spec, impl, bash, ir))
        if impl == spec and (bash is None or bash == spec):
            if v["nontrivial"]:
                ck.sample({"program": body(v)[len(AUX):], "stdout": spec[0]})
            continue
        if bash is not None and impl == bash and bash != spec:
            # the implementation agrees with bash, the spec does not: a defect of the spec (or a corrupted vector)
            ck.drift(dict(rec, spec=spec, impl=impl, bash=bash))
            if ck.notes.get("spec_drift", 0) <= 10:
                print("SPEC-DRIFT property=C21 key=%s spec=%r bash=impl=%r" % (key, spec, bash))
            continue
        dn = dev_name(v, impl) if (bash is None or bash == spec) else None
        if dn and "+" in dn and dn not in ck.known and all("Dev_" + p in ck.known for p in dn[4:].split("+")):
            # explained by several named deviations together, each of which is a listed known finding
            ck.known[dn] = {"what": "combination of the known findings " + ", ".join("Dev_" + p for p in dn[4:].split("+"))}
        ck.violation(dn or key, dict(rec, spec=spec, impl=impl, bash=bash, stderr=ir.get("err", "")[:200],
                                     spec_agrees_with_bash=(bash is None or bash == spec)))
        if collect is not None:
            collect[-1] = collect[-1] + (dn,)


def run(ck):
    h = vlib.build_harness("param")
    cfg = "ShParam.%s.cfg" % ck.tier
    t = vlib.run_tlc("ShParam", cfg, workers=8 if ck.tier == "quick" else 16, timeout=1500)
    ck.add_tlc(t)
    if not t.ok:
        raise vlib.Inconclusive("ShParam: the contract violates one of its own laws:\n" + (t.violation or t.raw_tail))
    vecs = t.vecs.get("VEC", [])
    ck.notes["bfs_vectors"] = len(vecs)
    # seeded part: random walks of the same Next with the wide menus and longer patterns
    ts = vlib.run_tlc("ShParam", "ShParam.sim.cfg", simulate=15 if ck.tier == "quick" else 1500, depth=9,
                      seed=ck.seed, timeout=1500)
    ck.add_tlc(ts)
    if not ts.ok:
        raise vlib.Inconclusive("ShParam (simulation): the contract violates one of its own laws:\n" + (ts.violation or ts.raw_tail))
    seen = set(key_of(v) for v in vecs)
    nsim = 0
    for v in ts.vecs.get("VEC", []):
        k = key_of(v)
        if k not in seen:
            seen.add(k)
            vecs.append(v)
            nsim += 1
    ck.notes["simulated_vectors_new"] = nsim
    ck.cov["exhaustive"] = True
    ck.cov["rule"] = ("one vector per distinct state of ShParam (TLC BFS): store x parameter x operator x arguments x "
                      "quoted/unquoted, patterns exhaustively up to MaxPat elements; non-trivial = the expansion differs "
                      "from the plain ${parameter} expansion, fails, or changes the variable")
    ck.assumptions += ["bash 5.2.15 as the reference shell", "empty working directory (pathname expansion finds nothing)"]
    evaluate(ck, vecs, h)


def replay(ck, rec):
    h = vlib.build_harness("param")
    evaluate(ck, [rec["vector"]], h)
