# C26 The interpreter runs supported programs like bash.  Spec: ShInterp (Style F/G).
# TLC enumerates programs (choice sequences) and evaluates each with the big-step evaluator of the spec
# (expected stdout + status; and what the code's known, named deviations would print instead).
# Every in-scope program runs in the real interpreter; bash 5.2 runs every program on which the
# interpreter and the spec disagree plus (quick) a seeded sample / (thorough) all of them.
import json
import vlib
import interpfam as F

LEVEL = "model_checking"

TIERS = {
    # BFS bound, simulation (behaviours, depth), cap on bash runs beyond the disagreements
    "quick":    {"MaxLen": 3, "MaxDepth": 2, "sim": (8, 7), "bash_cap": 2500},
    "thorough": {"MaxLen": 3, "MaxDepth": 2, "sim": (100, 10), "bash_cap": 6000},
}
FUEL = 150
IMPL_TIMEOUT_MS = 2000


def nontrivial(exp):
    return exp[1] != 0 or not exp[0].endswith("end 0\n")


def own_shell(src, exp):
    """Scheduling hint for the bash runs: may this program end its shell or leave an EXIT trap behind?"""
    last = exp[0].split("\n")[-2] if exp[0].endswith("\n") and exp[0].count("\n") >= 1 else ""
    return ("exit" in src or "EXIT" in src or "set -e" in src or "set -u" in src or exp[1] != 0 or not last.startswith("end "))


def judge(ck, src, exp, dexp, dfuel, trig, ir, bash, rec):
    """Three-way verdict (DESIGN section 3) for one program. exp/dexp/bash are (stdout, status)."""
    ck.cov["evaluations"] += 1
    key = "program " + json.dumps(src[:300])
    if ir.get("panic"):
        ck.violation("panic " + str(ir.get("panic"))[:120] + " " + str(ir.get("stack"))[:120], dict(rec, impl=ir)); return "panic"
    if ir.get("parse_error"):
        ck.violation("parse error " + key, dict(rec, impl=ir)); return "parse"
    ck.cov["traces_validated_against_impl"] += 1
    impl = (ir["out"], ir["status"])
    full = dict(rec, spec=exp, impl=impl, bash=bash, deviation_model=dexp, trig=trig)
    if impl == exp:
        if bash is None or bash == exp:
            return "pass"
        ck.violation(key, dict(full, note="interp and spec agree but bash differs")); return "viol"
    if bash is not None and bash == impl:
        ck.drift(full); return "drift"
    # impl differs from the spec (and from bash, when bash ran)
    explained = trig and ((dexp is not None and impl == dexp) or (dfuel and ir.get("timeout")))
    if explained and (bash is None or bash == exp):
        for d in trig:
            ck.violation(d, full)
        return "known"
    ck.violation(key, dict(full, spec_agrees_with_bash=(bash is None or bash == exp))); return "viol"


def vec_fields(v):
    exp = (F.text(v["out"]), v["st"])
    dexp = (F.text(v["dout"]), v["dst"]) if v["dbad"] == "" else None
    return exp, dexp, v["dbad"] == "fuel", sorted(v["trig"])


def run(ck):
    T = TIERS[ck.tier]
    h = vlib.build_harness(F.FAMILY)
    devs = F.active_devs("C26")
    consts = {"MaxLen": T["MaxLen"], "MaxDepth": T["MaxDepth"], "EmitAt": 0, "Fuel": FUEL, "EmitTree": False, "Devs": devs}
    t = F.run_tlc(ck, "ShInterp", consts, ["Check"], workers=8, timeout=2400)
    vecs = t.vecs.get("VEC", [])
    nbfs = len(vecs)
    n, depth = T["sim"]
    sc = dict(consts, MaxLen=depth, EmitAt=depth, EmitTree=True)
    s = F.run_tlc(ck, "ShInterp", sc, ["Check"], simulate=n, depth=depth + 1, seed=ck.seed, timeout=2400)
    seen = set(json.dumps(v["ch"]) for v in vecs)
    for v in s.vecs.get("VEC", []):
        k = json.dumps(v["ch"])
        if k not in seen:
            seen.add(k); vecs.append(v)
    ck.notes["programs_bfs"] = nbfs
    ck.notes["programs_sim"] = len(vecs) - nbfs
    ck.notes["active_deviation_switches"] = devs
    scope = [v for v in vecs if v["bad"] == ""]
    ck.notes["out_of_scope"] = len(vecs) - len(scope)
    reasons = {}
    for v in vecs:
        if v["bad"]:
            reasons[v["bad"]] = reasons.get(v["bad"], 0) + 1
    ck.notes["out_of_scope_reasons"] = reasons
    L = F.load_layouts()[0]
    srcs = [F.render(v["r"], L) for v in scope]
    fields = [vec_fields(v) for v in scope]
    ires = F.run_impl(h, srcs, timeout_ms=IMPL_TIMEOUT_MS, expect_hang=set(i for i, f in enumerate(fields) if f[2]))
    # parser self-check on the simulated programs (their vectors carry the tree): Abs(Parse(text)) = tree
    withtree = [i for i, v in enumerate(scope) if "t" in v]
    tres = F.run_impl(h, [srcs[i] for i in withtree], abs_=True, timeout_ms=IMPL_TIMEOUT_MS)
    bad_tree = [i for i, r in zip(withtree, tres)
                if r.get("abs") != F.norm_tree(scope[i]["t"])
                and not ("[[ ! -n" in srcs[i] and "Dev_TestBangPrecedence" in devs)]     # known: `!` binds too loosely in [[ ]]
    ck.notes["parser_selfcheck"] = {"programs": len(withtree), "tree_differs": len(bad_tree),
                                    "samples": [srcs[i] for i in bad_tree[:3]]}
    if len(bad_tree) > max(3, 0.02 * len(withtree)):
        raise vlib.Inconclusive("the parser builds a different tree than the generator for %d of %d programs, e.g. %r" % (
            len(bad_tree), len(withtree), srcs[bad_tree[0]]))
    mism = [i for i, (f, r) in enumerate(zip(fields, ires)) if (r.get("out"), r.get("status")) != f[0]]

    def explained(i):
        exp, dexp, dfuel, trig = fields[i]
        r = ires[i]
        return bool(trig) and ((dexp is not None and (r.get("out"), r.get("status")) == dexp) or (dfuel and r.get("timeout")))
    # bash decides every disagreement that the named deviations do not explain exactly; the rest is sampled
    want = set(i for i in mism if not explained(i))
    ck.notes["unexplained_disagreements"] = len(want)
    rest = [i for i in range(len(scope)) if i not in want]
    cap = T["bash_cap"]
    if cap is None or cap >= len(rest):
        want.update(rest)
    else:
        want.update(ck.rng.sample(rest, cap))
    order = sorted(want)
    # scheduling hint: does the program end by exit / with an EXIT trap (needs a shell of its own)?
    hint = [own_shell(srcs[i], fields[i][0]) for i in order]
    bres = F.run_bash([srcs[i] for i in order], exits=hint)
    bash = {}
    redo = []
    for i, b in zip(order, bres):
        bash[i] = (b[0], b[1])
        if not b[2] and bash[i] != fields[i][0]:
            redo.append(i)
    if redo:    # evaluated inside the batch shell and different from the expectation: decide on an isolated run
        for i, b in zip(redo, F.run_bash([srcs[i] for i in redo])):
            bash[i] = (b[0], b[1])
    ck.notes["bash_runs"] = len(order)
    ck.notes["bash_reruns_isolated"] = len(redo)
    ck.notes["impl_differs_from_spec"] = len(mism)
    counts = {}
    nt = 0
    for i, v in enumerate(scope):
        exp, dexp, dfuel, trig = fields[i]
        if nontrivial(exp):
            nt += 1
        rec = {"vector": {"src": srcs[i], "ch": v["ch"], "exp": exp, "dexp": dexp, "dfuel": dfuel, "trig": trig}}
        res = judge(ck, srcs[i], exp, dexp, dfuel, trig, ires[i], bash.get(i), rec)
        counts[res] = counts.get(res, 0) + 1
        if res == "pass" and nontrivial(exp) and i in bash:
            ck.sample({"program": srcs[i][:200], "stdout": exp[0][:100], "status": exp[1]}, cap=4)
    ck.notes["verdicts"] = counts
    ck.cov["distinct_nontrivial"] = nt
    ck.cov["exhaustive"] = True
    ck.cov["rule"] = ("every choice sequence of length <= %d of the ShInterp generator (prelude x body of f x main command, "
                      "BFS) plus %d simulated behaviours of depth %d; evaluations = in-scope programs run in interp and "
                      "judged; non-trivial = expected status != 0 or expected stdout not ending in `end 0`" % (T["MaxLen"], n, depth))
    ck.assumptions += ["bash 5.2.15 is the reference shell; each program runs as `( eval prog )` (a subshell environment)",
                       "stderr is not compared", "step budget Fuel=%d: programs the model cannot finish are out of scope" % FUEL,
                       "bash runs on every program where interp and spec disagree in a way the named deviations do not explain, and on a seeded sample of the others (cap %s)" % T["bash_cap"]]


def replay(ck, rec):
    h = vlib.build_harness(F.FAMILY)
    v = rec["vector"]
    ir = F.run_impl(h, [v["src"]], timeout_ms=IMPL_TIMEOUT_MS)[0]
    b = F.run_bash([v["src"]])[0]
    dexp = tuple(v["dexp"]) if v.get("dexp") else None
    judge(ck, v["src"], tuple(v["exp"]), dexp, v.get("dfuel", False), v.get("trig", []), ir, (b[0], b[1]), {"vector": v})
    if ck.drifts:     # the expected value of the vector disagrees with interp AND bash: the vector is wrong, not the code
        raise vlib.Inconclusive("SPEC-DRIFT: expected %r but interp and bash both give %r" % (tuple(v["exp"]), (b[0], b[1])))
