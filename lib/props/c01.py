# C01 via the ShSyntax grammar generator (spec/ShSyntax.tla); see lib/synfam.py.
import synfam
LEVEL = synfam.LEVEL


def run(ck):
    synfam.run_family(ck, "C01")


def replay(ck, rec):
    synfam.replay_family(ck, "C01", rec)
