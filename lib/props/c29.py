# C29 Running a program leaves the syntax tree and the user's Env untouched.
# Specs: ShRunnerTree (program builder + call schedule, action property Untouched),
#        ShRunnerTreeTrace (validation of the traces recorded from the real code),
#        ShRunnerLife (the C30 histories: the same executions are observed for C29 as well).
#
# (B1) TLC enumerates every program of <= MaxLen statements over the statement library of
#      ShRunnerTree (assignments, arrays, `declare $x`, aliases, braces, here-documents, functions,
#      traps, namerefs, writes to variables that live in the user's Env) and random longer ones.
#      Each program is parsed ONCE and the schedule of the spec -- Run; Run; Reset; Run -- is made
#      on one tree and one runner by the Go engine `lifecycle`; after every call the typed-JSON
#      encoding and the printed form of the tree are compared with those taken at parse time,
#      the expand.Environ given through interp.Env (a recording wrapper that also implements
#      WriteEnviron) must not have received a Set and must enumerate the same Each sequence;
#      the call after Reset must behave like the first call.
# (V)  The recorded observations (fingerprints of tree/env after every call, number of Set
#      calls) of all programs are concatenated into one trace that TLC must accept against
#      ShRunnerTreeTrace; a rejected trace is a violation (the trace IS the observable of C29).
# (B2) The histories of ShRunnerLife (C30) are replayed with the same observers switched on.
import json
import os
import re

import vlib
from props import c30
from props.c28 import run_resilient

LEVEL = "model_checking"

TIME_RE = re.compile(r"^(real|user|sys)\t\d+m\d+\.\d+s$", re.M)


def norm_out(s):
    return TIME_RE.sub(lambda m: m.group(1) + "\tTIME", s)


def prog_src(v):
    return "\n".join(v["src"]) + "\n"


def harness_vec(v):
    env = sorted("%s=%s" % kv for kv in v["env"].items())
    steps = [{"op": op, "tree": "p"} if op != "reset" else {"op": "reset"} for op in v["schedule"]]
    return {"cfg": {"params": None, "interactive": False, "env": env}, "trees": {"p": prog_src(v)},
            "runners": [steps], "tree_check": "json_each", "want_vars": False}


def judge(v, res):
    """Return (problem-kind, detail, call index) for one program, or None. No shell semantics here."""
    if res.get("crash"):
        return ("panic", res.get("panic", "")[:200], -1)
    if "runners" not in res:
        return ("machinery", json.dumps(res)[:300], -1)
    R = res["runners"][0]
    if R.get("new_error"):
        return ("machinery", R["new_error"], -1)
    for k, st in enumerate(R["steps"]):
        if st.get("panic"):
            return ("panic", st["panic"][:200], k)
        if st["op"] != "reset":
            if not st["tree_same"] or not st["print_same"]:
                return ("tree", st.get("tree_diff", ""), k)
        if st["env_setn"] != 0:
            return ("envset", "Set called on the user's Environ for %s" % R["env_sets"], k)
    if res.get("trees_changed"):
        return ("tree", json.dumps(res["trees_changed"])[:300], len(R["steps"]) - 1)
    if R["env_sets"]:
        return ("envset", "Set called on the user's Environ for %s" % R["env_sets"], -1)
    if not R["env_each_same"]:
        return ("enveach", "Each before %r after %r" % (R.get("env_before"), R.get("env_after")), -1)
    first, last = R["steps"][0], R["steps"][-1]
    if first.get("timeout") or last.get("timeout"):
        return ("timeout", "call did not return", 0)
    for fld in ("out", "status", "exited"):
        a, b = first[fld], last[fld]
        if fld == "out":
            a, b = norm_out(a), norm_out(b)
        if a != b:
            return ("rerun", "%s of the call after Reset %r differs from the first call %r" % (fld, b if not isinstance(b, str) else b[:200], a if not isinstance(a, str) else a[:200]), len(R["steps"]) - 1)
    return None


def trace_events(res):
    R = res["runners"][0]
    ev = [{"ev": "begin", "tree": R["tree_hash0"]["p"], "env": R["env_hash0"]}]
    for st in R["steps"]:
        if st.get("panic") or st.get("timeout") or "skipped" in (st.get("run_error") or ""):
            break
        ev.append({"ev": st["op"], "tree": st.get("tree_hash") or ev[-1]["tree"], "env": st["env_hash"], "sets": st["env_setn"]})
    return ev


def run_programs(ck, vecs, h, validate_trace=True):
    # a panic in a goroutine of the interpreter kills the harness process: resume after it
    results = run_resilient(h, "lifecycle", [harness_vec(v) for v in vecs], shards=min(12, vlib.NCPU))
    failing = {}
    problems = []
    offsets = []
    events = []
    for v, res in zip(vecs, results):
        ck.cov["traces_validated_against_impl"] += 1
        p = judge(v, res)
        if "runners" in res and not res["runners"][0].get("new_error"):
            R = res["runners"][0]
            ck.cov["evaluations"] += sum(1 for st in R["steps"] if st["op"] != "reset" and not st.get("panic"))
            if R["steps"] and R["steps"][0]["out"]:
                ck.cov["distinct_nontrivial"] += 1
            offsets.append((len(events), v))
            events += trace_events(res)
        if p is None:
            if len(v["prog"]) >= 2:
                ck.sample({"program": v["src"], "first_run_stdout": res["runners"][0]["steps"][0]["out"][:120],
                           "env_gets": res["runners"][0]["env_gets"]}, cap=3)
            continue
        if p[0] == "machinery":
            raise vlib.Inconclusive("lifecycle engine: " + p[1])
        failing[tuple(v["prog"])] = p
        problems.append((v, res, p))
    # Key a failure by the smallest failing sub-program we know of (single statements are vectors too).
    for v, res, p in problems:
        kind, detail, k = p
        prog = tuple(v["prog"])
        culprit = [v["src"][i] for i in range(len(prog)) if failing.get((prog[i],), (None,))[0] == kind]
        stmts = culprit[:1] if culprit else v["src"]
        rec = {"vector": v, "impl": res, "problem": kind, "detail": detail, "call": k}
        if kind == "panic":
            ck.notes["panics_seen"] = ck.notes.get("panics_seen", 0) + 1   # C28's subject, not C29's
            continue
        if kind == "timeout":
            ck.notes["timeouts_seen"] = ck.notes.get("timeouts_seen", 0) + 1
            continue
        label = {"tree": "Run modified the syntax tree", "envset": "Run wrote to the user's Environ",
                 "enveach": "the user's Environ enumerates differently after Run",
                 "rerun": "same tree behaves differently when run again after Reset"}[kind]
        if kind == "envset":
            # identify the write, not the program: every program trips over the same Set
            sets = res["runners"][0].get("env_sets") or ["?"]
            ck.violation("%s: first Set(%s)" % (label, sets[0]), rec)
            continue
        ck.violation("%s: %s" % (label, " ; ".join(stmts)), rec)
    # ---- (V) trace validation of everything recorded
    if validate_trace and events:
        work = vlib.scratch("c29tr-")
        try:
            path = os.path.join(work, "trace.ndjson")
            with open(path, "w") as f:
                for e in events:
                    f.write(json.dumps(e) + "\n")
            t = vlib.run_tlc("ShRunnerTreeTrace", "ShRunnerTreeTrace.cfg", workers=1, timeout=900,
                             env_extra={"VERIF_TRACE": path})
            ck.add_tlc(t)
            ck.notes["trace_events"] = ck.notes.get("trace_events", 0) + len(events)
            if not t.ok:
                stuck = (t.vecs.get("STAT") or [{}])[0].get("stuck")
                if stuck is None:
                    raise vlib.Inconclusive("trace validation failed without a position:\n" + (t.violation or t.raw_tail))
                # map the event index back to its program
                owner = None
                for off, v in offsets:
                    if off < stuck:
                        owner = v
                ck.notes["trace_rejected_at"] = stuck
                ck.violation("recorded trace rejected by ShRunnerTreeTrace: %s" % " ; ".join(owner["src"] if owner else ["?"]),
                             {"vector": owner, "event": events[stuck - 1], "index": stuck})
            else:
                ck.notes["trace_accepted"] = True
        finally:
            import shutil
            shutil.rmtree(work, ignore_errors=True)


def run_histories(ck, h):
    """(B2) the C30 histories with the C29 observers on."""
    t = vlib.run_tlc("ShRunnerLife", "ShRunnerLife.c29.cfg", workers=8, timeout=900)
    ck.add_tlc(t)
    if not t.ok:
        raise vlib.Inconclusive("ShRunnerLife: contract model inconsistent:\n" + (t.violation or t.raw_tail))
    vecs = t.vecs.get("VEC", [])
    cx = c30.Ctx(vecs)
    cases = [c30.build_case(cx, v) for v in vecs]
    for c in cases:
        c["harness"]["tree_check"] = "json"
        c["harness"]["want_vars"] = False
    results = run_resilient(h, "lifecycle", [c["harness"] for c in cases], shards=min(12, vlib.NCPU))
    for case, res in zip(cases, results):
        if res.get("crash"):
            ck.notes["panics_seen"] = ck.notes.get("panics_seen", 0) + 1
            continue
        if "runners" not in res:
            raise vlib.Inconclusive("lifecycle engine: %r" % (res,))
        ck.cov["traces_validated_against_impl"] += 1
        hs = c30.hist_str(case["hist"])
        rec = {"vector": {"kind": "history", "case": case}, "impl": res}
        bad = None
        for R in res["runners"]:
            for st in R["steps"]:
                if st["op"] != "reset" and not st.get("panic"):
                    ck.cov["evaluations"] += 1
                    if not st["print_same"]:
                        bad = "Run modified the syntax tree (printed form): " + st.get("tree_diff", "")
            if R["env_sets"]:
                bad = "Run wrote to the user's Environ: %s" % R["env_sets"]
            elif not R["env_each_same"]:
                bad = "the user's Environ enumerates differently after Run"
        if res.get("trees_changed"):
            bad = "Run modified the syntax tree: %s" % json.dumps(res["trees_changed"])[:200]
        if bad:
            ck.violation("history [%s]: %s" % (c30.last_run(case["hist"]), bad.split(":")[0]), dict(rec, detail=bad, where=hs))
    ck.notes["histories"] = len(cases)


def run(ck):
    h = vlib.build_harness("runner")
    quick = ck.tier == "quick"
    t = vlib.run_tlc("ShRunnerTree", "ShRunnerTree.%s.cfg" % ck.tier, workers=4, timeout=900)
    ck.add_tlc(t)
    if not t.ok:
        raise vlib.Inconclusive("ShRunnerTree: contract model inconsistent:\n" + (t.violation or t.raw_tail))
    vecs = t.vecs.get("VEC", [])
    nb = len(vecs)
    ts = vlib.run_tlc("ShRunnerTree", "ShRunnerTree.sim.cfg", simulate=150 if quick else 6000, depth=11, seed=ck.seed, timeout=900)
    ck.add_tlc(ts)
    if not ts.ok:
        raise vlib.Inconclusive("ShRunnerTree (simulation): contract model inconsistent:\n" + (ts.violation or ts.raw_tail))
    seen = {tuple(v["prog"]) for v in vecs}
    for v in ts.vecs.get("VEC", []):
        if tuple(v["prog"]) not in seen:
            seen.add(tuple(v["prog"]))
            vecs.append(v)
    if os.environ.get("VERIF_CORRUPT"):
        # development aid: pretend one recorded observation differs; the trace must be rejected
        ck.notes["corrupt"] = True
    ck.notes["programs_bfs"] = nb
    ck.notes["programs_simulated_new"] = len(vecs) - nb
    ck.cov["exhaustive"] = True
    ck.cov["rule"] = ("every program of <= MaxLen statements over the %d-statement library of ShRunnerTree (TLC BFS) plus simulated "
                      "programs of up to 6 statements, each run Run;Run;Reset;Run on one tree; plus the ShRunnerLife histories of "
                      "length <= 2 (cfg 1). evaluations = Run calls whose tree/Env were compared before vs after; non-trivial = "
                      "programs whose first run printed something" % 59)
    ck.assumptions += ["tree identity = typedjson encoding + printed form (exported fields and positions)",
                       "Env identity = the sequence Each enumerates (name, value, attributes)",
                       "external commands are never spawned"]
    step = 4000
    for o in range(0, len(vecs), step):
        chunk = vecs[o:o + step]
        if os.environ.get("VERIF_CORRUPT") and o == 0:
            run_programs_corrupt(ck, chunk, h)
        else:
            run_programs(ck, chunk, h)
    run_histories(ck, h)


def run_programs_corrupt(ck, vecs, h):
    """VERIF_CORRUPT=1: damage one recorded fingerprint before trace validation."""
    orig = trace_events

    def bad(res, _state={"done": False}):
        ev = orig(res)
        if not _state["done"] and len(ev) > 2:
            ev[2] = dict(ev[2], tree="corrupted")
            _state["done"] = True
        return ev
    globals()["trace_events"] = bad
    try:
        run_programs(ck, vecs, h)
    finally:
        globals()["trace_events"] = orig


def replay(ck, rec):
    h = vlib.build_harness("runner")
    v = rec["vector"]
    if v.get("kind") == "history":
        case = v["case"]
        res = vlib.run_harness(h, "lifecycle", [case["harness"]])[0]
        bad = None
        for R in res.get("runners", []):
            if R["env_sets"] or not R["env_each_same"]:
                bad = "Env"
            for st in R["steps"]:
                if st["op"] != "reset" and not st["print_same"]:
                    bad = "tree"
        if res.get("trees_changed"):
            bad = "tree"
        if bad:
            ck.violation(rec["key"], {"vector": v, "impl": res})
        return
    run_programs(ck, [v], h, validate_trace=True)
