# Helpers shared by C35/C36: building shfmt, running it, strace log parsing.
# Nothing here knows what shfmt *should* do; it only runs things and parses text.
import os, re, subprocess, shutil, stat

import vlib

BASE_ENV = {"PATH": "/usr/local/sbin:/usr/local/bin:/usr/sbin:/usr/bin:/sbin:/bin", "NO_COLOR": "1",
            "LC_ALL": "C"}


def build_shfmt():
    return vlib.build_repo_binary("./cmd/shfmt", "shfmt")


def run(cmd, *, cwd, env=None, stdin=b"", umask=-1, timeout=60):
    e = dict(BASE_ENV)
    if env:
        e.update(env)
    try:
        p = subprocess.run(cmd, cwd=cwd, env=e, input=stdin, capture_output=True, timeout=timeout, umask=umask)
        return p.returncode, p.stdout, p.stderr
    except subprocess.TimeoutExpired as ex:
        return -9, ex.stdout or b"", (ex.stderr or b"") + b"\n<timeout>"


# ----------------------------------------------------------------------------------
# strace log parsing (strace -f -o LOG: every line starts with the thread id)

_line_re = re.compile(r'^(\d+)\s+(.*)$')
_full_re = re.compile(r'^(\w+)\((.*)\)\s+=\s+(-?\d+|0x[0-9a-f]+|\?)(?:\s+(E[A-Z0-9]+)\b.*)?(?:\s+\(.*\))?\s*$', re.S)
_UNF = '<unfinished ...>'


def split_args(s):
    """Split a strace argument list at top-level commas (strings, {}, [], () respected)."""
    out, cur, depth, i, n = [], [], 0, 0, len(s)
    while i < n:
        c = s[i]
        if c == '"':
            j = i + 1
            while j < n and s[j] != '"':
                j += 2 if s[j] == '\\' else 1
            cur.append(s[i:j + 1]); i = j + 1; continue
        if c in '{[(':
            depth += 1
        elif c in '}])':
            depth -= 1
        if c == ',' and depth == 0:
            out.append("".join(cur).strip()); cur = []
        else:
            cur.append(c)
        i += 1
    last = "".join(cur).strip()
    if last or out:
        out.append(last)
    return out


_esc = {'n': 10, 't': 9, 'r': 13, 'v': 11, 'f': 12, 'a': 7, 'b': 8, 'e': 27, '\\': 92, '"': 34, "'": 39}


def unquote(arg):
    """strace string literal -> str (None if the argument is not a string literal)."""
    if not arg.startswith('"'):
        return None
    end = arg.rfind('"')
    body = arg[1:end]
    out = bytearray()
    i = 0
    while i < len(body):
        c = body[i]
        if c != '\\':
            out += c.encode("utf-8"); i += 1; continue
        i += 1
        c = body[i]
        if c in '01234567':
            j = i
            while j < len(body) and j < i + 3 and body[j] in '01234567':
                j += 1
            out.append(int(body[i:j], 8) & 255); i = j
        elif c == 'x':
            out.append(int(body[i + 1:i + 3], 16)); i += 3
        else:
            out.append(_esc.get(c, ord(c))); i += 1
    return out.decode("utf-8", "surrogateescape")


def parse_strace(text):
    """-> (calls, starts).  calls: completed system calls in completion order, each
    {tid, name, args, ret, err, start} (ret int or None for '?'), plus {special: exit|killed, tid, status}
    and for the call a SIGKILL injection hit: {killed_at_entry: True, ...}.
    starts: [(tid, name)] in order of system-call entry (what strace's inject counter counts)."""
    pending = {}
    calls, starts = [], []
    for line in text.splitlines():
        m = _line_re.match(line)
        if not m:
            continue
        tid, body = int(m.group(1)), m.group(2)
        if body.startswith('+++'):
            m2 = re.match(r'\+\+\+ exited with (\d+) \+\+\+', body)
            if m2:
                calls.append({"special": "exit", "tid": tid, "status": int(m2.group(1))})
            elif 'killed by' in body:
                calls.append({"special": "killed", "tid": tid})
            continue
        if body.startswith('---'):
            continue
        if body.startswith('<...'):
            m2 = re.match(r'<\.\.\. (\w+) resumed>\s?(.*)$', body, re.S)
            pre = pending.pop(tid, None)
            if pre is None or not m2:
                continue
            full, start = pre[0] + m2.group(2), pre[1]
        else:
            name = body.split('(', 1)[0]
            start = len(starts)
            starts.append((tid, name))
            if body.endswith(_UNF + ') = ?'):
                t = body[:-len(_UNF + ') = ?')]
                calls.append({"tid": tid, "name": name, "args": split_args(t.split('(', 1)[1].rstrip().rstrip(',')),
                              "ret": None, "err": None, "start": start, "killed_at_entry": True})
                continue
            if body.endswith(_UNF):
                pending[tid] = (body[:-len(_UNF)], start)
                continue
            full = body
        m3 = _full_re.match(full)
        if not m3:
            calls.append({"tid": tid, "name": full.split('(', 1)[0], "args": [], "ret": None, "err": "UNPARSED",
                          "start": start, "raw": full[:200]})
            continue
        name, args, ret, err = m3.group(1), m3.group(2), m3.group(3), m3.group(4)
        if ret == '?':
            rv = None
        elif ret.startswith('0x'):
            rv = int(ret, 16)
        else:
            rv = int(ret)
        calls.append({"tid": tid, "name": name, "args": split_args(args), "ret": rv, "err": err, "start": start})
    return calls, starts


def snapshot(dirs):
    """{label: abs dir} -> {relname: {kind, perm, size, data|to}} for everything below the dirs
    (directories themselves are listed with kind 'dir'; the roots are not)."""
    out = {}
    for label, d in dirs.items():
        if not os.path.isdir(d):
            continue
        for base, dns, fns in os.walk(d):
            for n in dns + fns:
                ap = os.path.join(base, n)
                rel = os.path.relpath(ap, d)
                key = rel if label == "" else label + "/" + rel
                st = os.lstat(ap)
                ent = {"perm": stat.S_IMODE(st.st_mode), "size": st.st_size}
                if stat.S_ISLNK(st.st_mode):
                    ent["kind"] = "symlink"; ent["to"] = os.readlink(ap)
                elif stat.S_ISDIR(st.st_mode):
                    ent["kind"] = "dir"
                elif stat.S_ISFIFO(st.st_mode):
                    ent["kind"] = "fifo"
                elif stat.S_ISREG(st.st_mode):
                    ent["kind"] = "reg"
                    with open(ap, "rb") as f:
                        ent["data"] = f.read()
                else:
                    ent["kind"] = "other"
                out[key] = ent
    return out
