# C25 shell.Expand and shell.Fields behave like bash.  Spec: ShShellApi (Style F, composition).
# TLC enumerates strings (token sequences) x environments, checks the cross-mode laws and emits one
# vector per state with the required result in both modes: here-document text (shell.Expand) and
# argument words without globbing (shell.Fields), or "error" for invalid syntax.
# Each vector = 2 evaluations on the Go API (engine shellapi), each compared with the spec and with
# bash 5.2 (`read -r -d '' o <<EOF` for the here-document, `set -f; p <string>` for the arguments).
import json
import vlib

LEVEL = "model_checking"

PRE = "p() { printf '%s:' \"$#\"; if [ $# -gt 0 ]; then printf '<%s>' \"$@\"; fi; }\nset -f\n"


def raw(text):
    return vlib.unchars(text).encode("utf-8").decode("latin-1")


def sq(s):
    return "'" + s.replace("'", "'\\''") + "'"


def setup(v):
    a = ["unset IFS v n", "HOME=" + sq(raw(v["home"]))]
    if v["v"]:
        a.append("v=" + sq(raw(v["v"])))
    if v["n"]:
        a.append("n=" + sq(raw(v["n"])))
    if v["ifs"]["set"]:
        a.append("IFS=" + sq(raw(v["ifs"]["val"])))
    return "; ".join(a) + "; "


def bash_doc(v):
    # when the here-document cannot be expanded (bad substitution) `read` is not run and o stays unset
    return (setup(v) + "unset o; IFS= read -r -d '' o <<EOF\n" + raw(v["src"]) + "\nEOF\n"
            "if [ \"${o+set}\" = set ]; then printf 'OK%s' \"$o\"; fi")


def bash_arg(v):
    return setup(v) + "p " + raw(v["src"])


def fmt(fields):
    return "%d:" % len(fields) + "".join("<%s>" % f for f in fields)


def describe(v, mode):
    return "%s(%s) v=%s n=%s%s" % (mode, json.dumps(raw(v["src"])), json.dumps(raw(v["v"])), json.dumps(raw(v["n"])),
                                  " IFS=" + json.dumps(raw(v["ifs"]["val"])) if v["ifs"]["set"] else "")


def evaluate(ck, vecs, h):
    env = lambda v: {"v": raw(v["v"]), "n": raw(v["n"]), "HOME": raw(v["home"]),
                     "IFS": raw(v["ifs"]["val"]) if v["ifs"]["set"] else ""}
    from concurrent.futures import ThreadPoolExecutor
    with ThreadPoolExecutor(max_workers=4) as ex:     # Go API and bash run side by side
        f_e = ex.submit(vlib.run_harness, h, "shellapi", [{"s": raw(v["src"]), "env": env(v), "mode": "expand"} for v in vecs], shards=4)
        f_f = ex.submit(vlib.run_harness, h, "shellapi", [{"s": raw(v["src"]), "env": env(v), "mode": "fields"} for v in vecs], shards=4)
        f_bd = ex.submit(vlib.run_shell_evals, [bash_doc(v) for v in vecs], prelude=PRE, locale="C.utf8", jobs=3, per_process=3000)
        f_ba = ex.submit(vlib.run_shell_evals, [bash_arg(v) for v in vecs], prelude=PRE, locale="C.utf8", jobs=3, per_process=3000)
        eres, fres, bdoc, barg = f_e.result(), f_f.result(), f_bd.result(), f_ba.result()
    for v, er, fr, bd, ba in zip(vecs, eres, fres, bdoc, barg):
        if v["nontrivial"]:
            ck.cov["distinct_nontrivial"] += 1
        for mode in ("Expand", "Fields"):
            ck.cov["evaluations"] += 1
            r = er if mode == "Expand" else fr
            if "panic" in r:
                ck.violation("panic in shell.%s: %s [%s]" % (mode, r["panic"][:80], describe(v, mode)), {"vector": v, "impl": r}); continue
            if "harness_error" in r:
                raise vlib.Inconclusive(r["harness_error"])
            ck.cov["traces_validated_against_impl"] += 1
            if mode == "Expand":
                spec = "error" if v["doc"]["err"] else "OK" + raw(v["doc"]["out"])
                impl = "error" if r.get("err") else "OK" + r["out"]
                b = bd["out"]
                bash = b[:-1] if b.startswith("OK") and b.endswith("\n") else "error"
                script = bash_doc(v)
            else:
                spec = "error" if v["arg"]["err"] else fmt([raw(f) for f in v["arg"]["fields"]])
                impl = "error" if r.get("err") else fmt(r["fields"])
                bash = ba["out"] if ba["rc"] == 0 and ba["out"] else "error"
                script = bash_arg(v)
            if v.get("corrupt"):   # a corrupted expectation is judged against the code alone
                spec = spec + "corrupted"; bash = spec
            if impl == spec and bash == spec:
                if v["nontrivial"]:
                    ck.sample({"call": describe(v, mode), "spec": spec, "impl": impl, "bash": bash}, cap=6)
                continue
            rec = {"vector": v, "mode": mode, "script": script, "spec": spec, "impl": impl, "bash": bash,
                   "impl_err": r.get("err")}
            if impl == bash and bash != spec:
                ck.drift(rec); continue
            rec["spec_agrees_with_bash"] = (bash == spec)
            ck.violation(key_of(v, mode, spec, impl, bash), rec)


def key_of(v, mode, spec, impl, bash):
    if mode == "Fields" and bash == spec and v["argdqe"] != v["arg"] and not v["argdqe"]["err"] \
            and impl == fmt([raw(f) for f in v["argdqe"]["fields"]]):
        return "Dev_dqe"
    return "shell.%s" % describe(v, mode)


def run(ck):
    h = vlib.build_harness("fields")
    t = vlib.run_tlc("ShShellApi", "ShShellApi.%s.cfg" % ck.tier, workers=8 if ck.tier == "quick" else 16, timeout=3000)
    ck.add_tlc(t)
    if not t.ok:
        raise vlib.Inconclusive("ShShellApi: the contract model violates its own laws:\n" + (t.violation or t.raw_tail))
    vecs = t.vecs.get("VEC", [])
    ck.notes["vectors"] = len(vecs)
    ck.cov["exhaustive"] = True
    ck.cov["rule"] = ("every string of up to MaxTok tokens from the 20-token menu x the values of the variables it uses "
                      "(TLC BFS, one vector per state); each vector = 2 evaluations (shell.Expand, shell.Fields), both "
                      "compared with the spec and bash; distinct_nontrivial = strings with an expansion, quote, backslash, "
                      "brace or tilde token that are not an error in both modes")
    ck.assumptions += ["bash 5.2.15 as reference: here-document via `read -r -d '' o <<EOF`, arguments via `set -f; p <string>`",
                       "HOME=/h in both; IFS unset or ':' (through the env function); variables v (6 values incl. unset) and n (unset or 3)",
                       "an error is compared as an error only (not its message)"]
    for o in range(0, len(vecs), 50000):
        evaluate(ck, vecs[o:o + 50000], h)


def replay(ck, rec):
    h = vlib.build_harness("fields")
    evaluate(ck, [rec["vector"]], h)
