# C30 Runner reuse is equivalent to a fresh runner.  Spec: ShRunnerLife (Style S).
#
# TLC enumerates every history of actions Run(p) / Reset (/ Stmtwise(p) in the thorough tier) over
# the effect-labelled statement library of the spec (BFS = all histories up to MaxHist; -simulate =
# random histories up to length 6), checks the contract's laws on each (Reset restores Init(cfg);
# probe after Reset == probe on a fresh runner; statement-at-a-time == whole file minus the EXIT
# trap) and emits one vector per history with what an outside observer must see.
# Every vector is replayed on real interp.Runner objects by the Go engine `lifecycle`:
#   A  one runner: the history, then the probe, then Reset, then the probe again
#   B  a fresh runner: the probe
#   C  a fresh runner: Run(the history concatenated with the probe as ONE file)
#   D  a fresh runner: the same file, one Run call per top-level statement until Exited()
# and compared with the spec's prediction and with each other (stdout, status, Exited, the file
# written through `exec >file`, Vars/Funcs/Dir/Params).
# Python only renders the spec's observation items to text and compares.
import json
import os

import vlib

LEVEL = "model_checking"

ALIAS_BODY = {"A1": "echo A1"}
FUNC_SRC = {"F1": "{ echo F1; }", "F2": "{ echo F2; }"}
SETO = ["errexit", "nounset", "noglob", "allexport", "pipefail"]
SHOPT = ["nullglob", "expand_aliases"]


def render_item(it):
    """One observation item of the spec -> the text the probe/statement prints for it."""
    k, a = it["k"], it["a"]
    if k == "lit":
        return a[0] + "\n"
    if k == "q":
        return "?=%s\n" % a[0]
    if k == "vals":
        return "v=%s w=%s E=%s a=%s\n" % (a[0], a[1], a[2], a[3].join(a[4:]))
    if k == "decl":
        n, val, x, r = a
        if val == "U":
            return n + ":none\n"
        flags = ("r" if r == "1" else "") + ("x" if x == "1" else "") or "-"
        return 'declare -%s %s="%s"\n' % (flags, n, val)
    if k == "decla":
        if a[0] == "0":
            return "a:none\n"
        return "declare -a%s a=(%s)\n" % ("x" if a[1] == "1" else "",
                                          " ".join('[%d]="%s"' % (i, e) for i, e in enumerate(a[2:])))
    if k == "func":
        return "f:none\n" if a[0] == "U" else a[0] + "\n"
    if k == "alias":
        return "alias:\n" if a[0] == "U" else "alias:alias a1='%s'\n" % ALIAS_BODY[a[0]]
    if k == "aliasrun":
        return "a1:norun\n" if a[0] == "U" else a[0] + "\n"
    if k == "seto":
        return "".join("%s\t%s\n" % (n, v) for n, v in zip(SETO, a))
    if k == "shopt":
        return "".join("%s\t%s\n" % (n, v) for n, v in zip(SHOPT, a))
    if k == "glob":
        return " ".join(a) + "\n"
    if k == "traps":
        return ('trap -- "echo %s" EXIT\n' % a[0] if a[0] else "") + ('trap -- "echo %s" ERR\n' % a[1] if a[1] else "")
    if k == "pwd":
        return a[0] + "\n"
    if k == "pwd2":
        return "%s %s\n" % (a[0], a[1])
    if k == "dirs":
        return " ".join(a) + "\n"
    if k == "params":
        return "%d:%s\n" % (len(a) - 1, a[0].join(a[1:]))
    if k == "optind":
        return "OPTIND=%s\n" % a[0]
    if k == "getopts":
        return "o=%s %s%s\n" % (a[0], a[1], " done" if a[2] == "done" else "")
    if k == "job":
        return ("job%s\n" if a[1] == "1" else "nojob%s\n") % a[0]
    raise ValueError("unknown item kind %r" % k)


def render(items):
    return "".join(render_item(i) for i in items)


def first_diff(items, actual):
    """Name the first observation item whose text is not where the spec says it is."""
    pos = 0
    for it in items:
        t = render_item(it)
        if actual[pos:pos + len(t)] != t:
            return "%s (want %r, got %r)" % (it["k"], t[:60], actual[pos:pos + max(len(t), 20)][:60])
        pos += len(t)
    if actual[pos:]:
        return "extra output %r" % actual[pos:pos + 60]
    return ""


def hist_key(h):
    return tuple((a["op"], a["p"]) for a in h)


def hist_str(h):
    return " ; ".join("Reset" if a["op"] == "reset" else ("Stmtwise[%s]" % a["p"] if a["op"] == "stmtwise" else a["p"]) for a in h) or "(empty)"


def src_of(stmts, ptext):
    """Statement ids -> source text. Library atoms are their own source; probe ids map to ptext."""
    out = []
    for s in stmts:
        if len(s) == 3 and s[0] == "P" and s[1:].isdigit():
            out.append(ptext[int(s[1:]) - 1])
        else:
            out.append(s)
    return "\n".join(out) + "\n"


class Ctx:
    """Index over all emitted vectors: only what other histories need (the record of the last call of
    every history, and the per-configuration vectors) is kept in memory."""

    def __init__(self, vecs=()):
        self.by = {}
        self.cfgs = {}
        self.ptext = None
        self.probe_ids = []
        for v in vecs:
            self.add(v)

    def add(self, v):
        k = (v["cfg"], hist_key(v["hist"]))
        if k in self.by:
            return False
        self.by[k] = {"last": v["last"]}
        if not v["hist"]:
            self.cfgs[v["cfg"]] = v
            self.ptext = v["ptext"]
            self.probe_ids = ["P%02d" % (i + 1) for i in range(len(self.ptext))]
        return True


def build_case(cx, v):
    """Assemble the self-contained replay case for one history vector."""
    c = cx.cfgs[v["cfg"]]
    conf = c["conf"]
    hist = v["hist"]
    trees = {"probe": src_of(cx.probe_ids, cx.ptext)}
    stepsA = []
    exp_steps = []
    for i, a in enumerate(hist):
        if a["op"] == "reset":
            stepsA.append({"op": "reset"})
        else:
            name = "h%d" % i
            trees[name] = src_of([a["p"]], cx.ptext)
            stepsA.append({"op": a["op"], "tree": name})
        pre = cx.by.get((v["cfg"], hist_key(hist[:i + 1])))
        exp_steps.append(pre["last"] if pre else None)
    stepsA += [{"op": "run", "tree": "probe"}, {"op": "reset"}, {"op": "run", "tree": "probe"}]
    runners = [stepsA, [{"op": "run", "tree": "probe"}]]
    if v["ws"]:
        trees["whole"] = src_of([a["p"] for a in hist] + cx.probe_ids, cx.ptext)
        runners += [[{"op": "run", "tree": "whole"}], [{"op": "stmtwise", "tree": "whole"}]]
    env = sorted("%s=%s" % kv for kv in c["env"].items())
    hv = {"cfg": {"params": list(conf["args"]) if conf["useParams"] else None,
                  "interactive": conf["interactive"], "env": env},
          "trees": trees, "runners": runners, "want_vars": True}
    return {"cfg": v["cfg"], "hist": hist, "harness": hv, "exp_steps": exp_steps, "exp_probe": v["probe"],
            "exp_fresh": c["probe"], "ws": v["ws"], "exp_whole": v["whole"] if v["ws"] else None,
            "exp_stmt": v["stmt"] if v["ws"] else None, "nontrivial": v["nontrivial"]}


def exp_file(rec):
    return render(rec["f1"]) if rec["fex"] else None


def cmp_step(exp, got, what, with_nrun=False):
    """Compare one observed call with the spec's StepRec; returns a description of the first difference."""
    if got.get("panic"):
        return "panic %s" % got["panic"][:120], "panic"
    if got.get("timeout") or got.get("run_error"):
        return "run error %r" % (got.get("run_error") or "timeout"), "error"
    want = render(exp["out"])
    if got["out"] != want:
        return "stdout: " + first_diff(exp["out"], got["out"]), "stdout:" + first_diff(exp["out"], got["out"]).split(" ")[0]
    if str(got["status"]) != exp["status"]:
        return "status %s, spec %s" % (got["status"], exp["status"]), "status"
    if got["exited"] != exp["exited"]:
        return "Exited()=%s, spec %s" % (got["exited"], exp["exited"]), "exited"
    if got["file"] != exp_file(exp):
        return "file written through exec: %r, spec %r" % (got["file"], exp_file(exp)), "file"
    if with_nrun and got["nrun"] != exp["nrun"]:
        return "%d Run calls, spec %d" % (got["nrun"], exp["nrun"]), "nrun"
    return None, None


def cmp_view(view, rr):
    """Spec's View against Runner.Vars/Funcs/Dir/Params after the last call."""
    if rr["dir"] != view["dir"]:
        return "Dir %r, spec %r" % (rr["dir"], view["dir"])
    if list(rr["params"] or []) != list(view["params"]):
        return "Params %r, spec %r" % (rr["params"], view["params"])
    want_f = {} if view["fn"] == "U" else {"f": FUNC_SRC[view["fn"]]}
    if rr["funcs"] != want_f:
        return "Funcs %r, spec %r" % (rr["funcs"], want_f)
    vs = rr["vars"]
    for n, sv in view["vars"].items():
        g = vs.get(n)
        if sv["val"] == "U":
            if g is not None and g["set"]:
                return "Vars[%s] set to %r, spec unset" % (n, g["s"])
            continue
        if g is None or not g["set"] or g["k"] != "string" or g["s"] != sv["val"] or g["x"] != sv["x"] or g["r"] != sv["r"]:
            return "Vars[%s]=%r, spec %r" % (n, g, sv)
    a = vs.get("a")
    if view["arr"]["set"]:
        if a is None or a["k"] != "indexed" or (a.get("l") or []) != list(view["arr"]["list"]) or a["x"] != view["arr"]["x"] or a.get("ix"):
            return "Vars[a]=%r, spec %r" % (a, view["arr"])
    elif a is not None and a["set"]:
        return "Vars[a] set, spec unset"
    oi = vs.get("OPTIND")
    if oi is None or oi["s"] != view["optind"]:
        return "Vars[OPTIND]=%r, spec %r" % (oi and oi["s"], view["optind"])
    old = vs.get("OLDPWD")
    if (old["s"] if old is not None and old["set"] else "U") != view["old"]:
        return "Vars[OLDPWD]=%r, spec %r" % (old, view["old"])
    return None


def last_run(hist):
    for a in reversed(hist):
        if a["op"] != "reset":
            return a["p"]
    return "-"


def evaluate(ck, cases, results, sample=True):
    for case, res in zip(cases, results):
        hs = hist_str(case["hist"])
        where = "cfg=%d hist=[%s]" % (case["cfg"], hs)
        rec = {"vector": case}
        if "runners" not in res:
            raise vlib.Inconclusive("lifecycle engine: %r" % (res,))
        rs = res["runners"]
        A, Bf = rs[0], rs[1]
        if A.get("new_error") or Bf.get("new_error"):
            raise vlib.Inconclusive("interp.New failed: %r" % (A.get("new_error") or Bf.get("new_error")))
        ck.cov["traces_validated_against_impl"] += 1
        if case["nontrivial"]:
            ck.cov["distinct_nontrivial"] += 1
        bad = False
        n = len(case["hist"])
        # -- A: each call of the history
        for i, a in enumerate(case["hist"]):
            got = A["steps"][i]
            ck.cov["evaluations"] += 1
            if got.get("panic"):
                ck.violation("panic in %s: %s" % (a["op"], got["panic"][:100]), dict(rec, impl=got, where=where)); bad = True; break
            if a["op"] == "reset" or case["exp_steps"][i] is None:
                continue
            d, kind = cmp_step(case["exp_steps"][i], got, "step", with_nrun=True)
            if d:
                prev = last_run(case["hist"][:i])
                ck.violation("history step %s[%s] after [%s]: %s" % (a["op"], a["p"], prev, kind),
                             dict(rec, impl=got, spec=case["exp_steps"][i], where=where, diff=d)); bad = True; break
        if bad:
            continue
        # -- A: probe right after the history
        ck.cov["evaluations"] += 1
        d, kind = cmp_step(case["exp_probe"], A["steps"][n], "probe")
        if d:
            ck.violation("probe after [%s]: %s" % (last_run(case["hist"]), kind),
                         dict(rec, impl=A["steps"][n], spec=case["exp_probe"], where=where, diff=d))
            continue
        # -- B: fresh runner vs spec
        ck.cov["evaluations"] += 1
        d, kind = cmp_step(case["exp_fresh"], Bf["steps"][0], "fresh")
        if not d:
            dv = cmp_view(case["exp_fresh"]["view"], Bf)
            if dv:
                d, kind = dv, "view"
        if d:
            ck.violation("fresh runner probe cfg=%d: %s" % (case["cfg"], kind),
                         dict(rec, impl=Bf["steps"][0], spec=case["exp_fresh"], where=where, diff=d))
            continue
        # -- A: Reset, probe  ==  fresh (real vs real, and vs spec)
        ck.cov["evaluations"] += 1
        got = A["steps"][n + 2]
        fresh = Bf["steps"][0]
        exp_after = dict(case["exp_fresh"], fex=case["exp_probe"]["fex"], f1=case["exp_probe"]["f1"])
        d, kind = cmp_step(exp_after, got, "after-reset")
        if not d:
            for fld in ("out", "status", "exited", "err"):
                if got[fld] != fresh[fld]:
                    d, kind = "%s differs from the fresh runner: %r vs %r" % (fld, got[fld][:200] if isinstance(got[fld], str) else got[fld], fresh[fld][:200] if isinstance(fresh[fld], str) else fresh[fld]), fld
                    break
        if not d:
            for fld in ("vars", "funcs", "dir", "params"):
                if A[fld] != Bf[fld]:
                    diffs = A[fld]
                    if fld == "vars":
                        diffs = {k: (A["vars"].get(k), Bf["vars"].get(k)) for k in set(A["vars"]) | set(Bf["vars"])
                                 if A["vars"].get(k) != Bf["vars"].get(k)}
                    d, kind = "Runner.%s after Reset+probe differs from the fresh runner: %r" % (fld.capitalize(), diffs), fld
                    break
        if d:
            ck.violation("Reset then probe differs from a fresh runner (%s)" % kind,
                         dict(rec, impl=got, fresh=fresh, spec=exp_after, where=where, diff=d))
            continue
        # -- C / D: whole file vs statement-at-a-time
        if case["ws"]:
            C, D = rs[2], rs[3]
            ck.cov["evaluations"] += 2
            d, kind = cmp_step(case["exp_whole"], C["steps"][0], "whole")
            if not d:
                dv = cmp_view(case["exp_whole"]["view"], C)
                if dv:
                    d, kind = dv, "view"
            if d:
                ck.violation("whole-file run of [%s]+probe: %s" % (last_run(case["hist"]), kind),
                             dict(rec, impl=C["steps"][0], spec=case["exp_whole"], where=where, diff=d))
                continue
            d, kind = cmp_step(case["exp_stmt"], D["steps"][0], "stmtwise", with_nrun=True)
            if not d:
                dv = cmp_view(case["exp_stmt"]["view"], D)
                if dv:
                    d, kind = dv, "view"
            if not d:
                for fld in ("vars", "funcs", "dir", "params"):
                    if C[fld] != D[fld]:
                        d, kind = "Runner.%s differs between whole-file and statement-at-a-time" % fld.capitalize(), fld
                        break
            if d:
                ck.violation("statement-at-a-time run of [%s]+probe: %s" % (last_run(case["hist"]), kind),
                             dict(rec, impl=D["steps"][0], whole=C["steps"][0], spec=case["exp_stmt"], where=where, diff=d))
                continue
        if sample and case["nontrivial"] and len(case["hist"]) >= 2:
            ck.sample({"cfg": case["cfg"], "history": hs, "probe_after_history": A["steps"][n]["out"][:160],
                       "probe_after_reset": got["out"][:160]}, cap=4)


def corrupt(case, rng):
    """Development aid (VERIF_CORRUPT=1): damage one expected value; the check must then fail."""
    c = json.loads(json.dumps(case))
    tgt = c["exp_fresh"]["out"][rng.randrange(len(c["exp_fresh"]["out"]))]
    tgt["a"] = list(tgt["a"]) + ["corrupted"] if tgt["k"] in ("glob", "dirs", "params", "vals") else ["corrupted"] + list(tgt["a"][1:])
    return c


def replay_cases(ck, cases, h):
    results = vlib.run_harness(h, "lifecycle", [c["harness"] for c in cases], shards=min(12, vlib.NCPU),
                               env_extra={"GOGC": "400", "GOMAXPROCS": "2"})
    evaluate(ck, cases, results)


def run(ck):
    h = vlib.build_harness("runner")
    quick = ck.tier == "quick"
    work = vlib.scratch("c30-")
    try:
        # quick: all histories of length <= 2 over the whole library.  thorough: those, plus the histories of
        # length <= 2 that also use Stmtwise(p), plus all histories of length 3 over a 24-statement
        # sub-library (one statement per state component) under configuration 1.
        runs = [("ShRunnerLife.quick.cfg", None)]
        if not quick:
            runs += [("ShRunnerLife.stmt.cfg", None), ("ShRunnerLife.thorough.cfg", None)]
        nsim = 150 if quick else 3000
        runs.append(("ShRunnerLife.sim.cfg", nsim))
        files = []
        for cfgname, sim in runs:
            path = os.path.join(work, cfgname + ".ndjson")
            with open(path, "w") as f:
                if sim:
                    t = vlib.run_tlc("ShRunnerLife", cfgname, simulate=sim, depth=7, seed=ck.seed, timeout=1500,
                                     stream_to={"VEC": f})
                else:
                    t = vlib.run_tlc("ShRunnerLife", cfgname, workers=8 if quick else 16, timeout=400 if quick else 3000,
                                     stream_to={"VEC": f})
            ck.add_tlc(t)
            if not t.ok:
                raise vlib.Inconclusive("ShRunnerLife (%s): contract model inconsistent:\n%s" % (cfgname, t.violation or t.raw_tail))
            files.append((path, bool(sim)))
        # pass 1: index
        cx = Ctx()
        nb = nsimnew = 0
        for path, is_sim in files:
            for l in open(path):
                if cx.add(json.loads(l)):
                    if is_sim:
                        nsimnew += 1
                    else:
                        nb += 1
        if not cx.ptext or not cx.cfgs:
            raise vlib.Inconclusive("no configuration vectors emitted")
        ck.notes["histories_bfs"] = nb
        ck.notes["histories_simulated_new"] = nsimnew
        ck.cov["exhaustive"] = True
        ck.cov["rule"] = ("one replay per history emitted by TLC (BFS: every history of Run(p)/Reset actions up to MaxHist over the "
                          "45-statement library x configurations%s; plus %d simulated behaviours of length <= 6 with Stmtwise(p) "
                          "actions too); evaluations = observed API calls / call sequences compared with the spec (each history "
                          "call, probe, fresh probe, Reset+probe, whole file, statement-at-a-time); non-trivial = history whose "
                          "final abstract runner state differs from Init(cfg)" % (
                              "" if quick else "; every history of length <= 2 that also uses Stmtwise(p); every history of length 3 over a 24-statement sub-library under configuration 1", nsim))
        ck.assumptions += ["statement library and probe of spec/ShRunnerLife.tla (45 statements, 21 probe lines, 4 configurations)",
                           "external commands are never spawned (exec handler reports 'not found')",
                           "named deviations from bash inside the library (Dev_* in the spec) are modelled as the interpreter behaves; they are not the subject of C30"]
        # pass 2: replay in chunks
        done = set()
        chunk = []
        maxlen = 0
        corrupt_at = ck.rng.randrange(200) if os.environ.get("VERIF_CORRUPT") else -1
        n = 0
        for path, _ in files:
            for l in open(path):
                v = json.loads(l)
                k = (v["cfg"], hist_key(v["hist"]))
                if k in done:
                    continue
                done.add(k)
                maxlen = max(maxlen, len(v["hist"]))
                case = build_case(cx, v)
                if n == corrupt_at:
                    case = corrupt(case, ck.rng)
                n += 1
                chunk.append(case)
                if len(chunk) >= 4000:
                    replay_cases(ck, chunk, h)
                    chunk = []
        if chunk:
            replay_cases(ck, chunk, h)
        ck.notes["max_history_length"] = maxlen
    finally:
        import shutil
        shutil.rmtree(work, ignore_errors=True)


def replay(ck, rec):
    h = vlib.build_harness("runner")
    replay_cases(ck, [rec["vector"]], h)
