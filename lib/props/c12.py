# C12 Parser acceptance agrees with the real shells.
# Specs: ShSyntax (the shared core = derivations valid in both bash and posix), ShRecognizer (the
# contract for the allowed differences: named predicates, each citing where the repository documents
# it; evaluated by TLC on every disagreement; laws checked on every observation).
# Go engine: harness/cmd/synrest accept.   Oracle: bash -n / dash -n (the property names them).
#
# Programs: every core derivation under every layout, and single-token mutations (deletion, swap,
# insertion from INSERT) of the core token sequences -- all of them for the small programs, a seeded
# sample of the rest.  syntax.Parser (LangBash / LangPOSIX) is run on each; the shells judge each:
#   * many programs per shell process: `command eval 'f() {<nl>:<nl>PROGRAM<nl>}'` parses without running
#     and survives syntax errors (status 2) in bash and dash;
#   * a real `bash -n` / `dash -n` process for (1) programs where the wrapper could change acceptance
#     (a here-document operator in a mutated program, a trailing backslash, a `}` that closes the wrapper
#     followed by a `{`), (2) EVERY disagreement found through the wrapper before it is reported, and
#     (3) a seeded sample of the rest, which must agree with the wrapper (else INCONCLUSIVE).
# Verdict: a disagreement between syntax.Parser and the shell is a violation unless TLC says that a
# named predicate of ShRecognizer excuses it.
import json, os, re, shutil, subprocess, collections
from concurrent.futures import ThreadPoolExecutor
import vlib, syn

LEVEL = "model_checking"
LANGS = ["bash", "posix"]
SHELL = {"bash": "bash", "posix": "dash"}
INSERT = ["(", ")", "{", "}", ";", "&", "|", "&&", "!", "'", "\"", "`", "$(", "fi", "do", "done", "esac", "then", "if",
          "in", ";;", "\n", "foo", ">", "#"]
# tokens that mostly witness the documented differences: inserted at every 7th position only
WITNESS = ["<<", "&>", "BAD", "$(())", "$((", "${x"]
# Reserved words put where a COMMAND WORD is expected but no statement list starts: as a word of their own
# (followed by a blank) right after `&&`, `||`, `|`, `|&`, `!`, `time`, `coproc` and the `()` of a function definition.
# (The plain insertions above glue the token to its neighbour -- `fi`+`cmd` is the word `ficmd` -- so they never
# produce a reserved word in the middle of a pipeline or and-or list.)
RESERVED = ["then", "elif", "else", "fi", "do", "done", "esac", "in", "}"]
CMD_WORD_AFTER = ("&&", "||", "|", "|&", "!", "time", "coproc", "()")


def single_mutations(r):
    """Every single-token mutation of a token sequence: (kind, index of the mutated token, tokens)."""
    toks = list(r)
    idx = [i for i, t in enumerate(toks) if not t.startswith("<") or t in ("<<", "<(", "<", "<<-", "<>")]

    def ok(m):   # a here-document marker keeps its two operands
        return all(not (t == "<HDOC>" and k + 2 >= len(m)) for k, t in enumerate(m))
    out = []
    for i, t in enumerate(toks):
        if t in ("<SEP>", "<BGSEP>"):            # a statement separator goes missing
            m = toks[:i] + ["<SP>"] + toks[i + 1:]
            if ok(m) and "<HDOC>" not in toks[:i]:
                out.append(("del:" + t, i + 1, m))
    for i in idx:
        m = toks[:i] + toks[i + 1:]
        if m and ok(m):
            out.append(("del:" + toks[i], min(i + 1, len(m)), m))
        if i + 1 < len(toks):
            m = list(toks); m[i], m[i + 1] = m[i + 1], m[i]
            if ok(m) and m != toks:
                out.append(("swap:" + toks[i], i + 2, m))
        for t in INSERT + (WITNESS if i % 7 == 0 else []):
            m = toks[:i] + [t] + toks[i:]
            if ok(m):
                out.append(("ins:" + t, i + 1, m))
    for i, t in enumerate(toks):
        if t in CMD_WORD_AFTER:
            j = i + 1
            while j < len(toks) and toks[j] in ("<SP>", " "):
                j += 1                               # the command word goes behind the blanks that follow the operator
            for w in RESERVED:
                m = toks[:j] + ([] if j > i + 1 else ["<SP>"]) + [w, "<SP>"] + toks[j:]
                if ok(m):
                    out.append(("cmdword:" + w, j + (1 if j > i + 1 else 2), m))
    return out


def render(m, L):
    return syn.render(m, L).replace("BAD", "\xff")


# ------------------------------------------------------------------------------------------------ shells
def wrapper_risky(src, mutated):
    """Could `f() {<nl>src<nl>}` be accepted/rejected differently from src alone?"""
    if "<<" in src and (mutated or "\r" in src):
        return True                      # an open here-document swallows the closing brace (with a CR after the
                                         # delimiter word the here-document of an unmutated program stays open too)
    if src.rstrip("\n").endswith("\\"):
        return True                      # the continuation joins the closing brace
    depth = 0
    for c in src:
        if c == "{":
            if depth < 0:
                return True              # a `{` after a `}` that closed the wrapper
            depth += 1
        elif c == "}":
            depth -= 1
    return False


def shquote(s):
    return "'" + s.replace("'", "'\\''") + "'"


def run_wrapped(shell, progs, per_process=2500):
    """One shell process per chunk: status of `command eval` of each program wrapped in a function body.
    Returns list of True (accepted) / False (rejected) / None (no answer)."""
    res = [None] * len(progs)
    work = vlib.scratch("c12-")
    env = {"PATH": "/usr/local/sbin:/usr/local/bin:/usr/sbin:/usr/bin:/sbin:/bin", "LC_ALL": "C", "HOME": work}
    try:
        for o in range(0, len(progs), per_process):
            idx = list(range(o, min(o + per_process, len(progs))))
            while idx:
                sp = os.path.join(work, "w.sh")
                with open(sp, "wb") as f:
                    for i in idx:
                        f.write(("command eval %s 2>/dev/null </dev/null; echo \"@@%d:$?\"\n" % (shquote("f() {\n:\n" + progs[i] + "\n}\n"), i)).encode("latin-1", "replace"))
                p = subprocess.run([shell, sp], cwd=work, env=env, stdin=subprocess.DEVNULL, capture_output=True, timeout=600)
                got = {}
                for m in re.finditer(rb"@@(\d+):(\d+)", p.stdout):
                    got[int(m.group(1))] = int(m.group(2)) == 0
                for i, a in got.items():
                    res[i] = a
                rest = [i for i in idx if i not in got]
                if not rest or len(rest) == len(idx) and not got:
                    rest = rest[1:]     # the first one killed the shell: it stays unanswered
                idx = rest
        return res
    finally:
        shutil.rmtree(work, ignore_errors=True)


def run_real(shell, progs, jobs=2):
    """One `shell -n file` process per program: [{"ok": bool, "eofwarn": bool, "err": first line}]."""
    work = vlib.scratch("c12-")
    env = {"PATH": "/usr/local/sbin:/usr/local/bin:/usr/sbin:/usr/bin:/sbin:/bin", "LC_ALL": "C", "HOME": work}

    def one(i):
        sp = os.path.join(work, "s%d.sh" % i)
        with open(sp, "wb") as f:
            f.write(progs[i].encode("latin-1", "replace"))
        try:
            p = subprocess.run([shell, "-n", sp], cwd=work, env=env, stdin=subprocess.DEVNULL, capture_output=True, timeout=60)
            err = p.stderr.decode("latin-1")
            rc = p.returncode
        except subprocess.TimeoutExpired:
            err, rc = "timeout", -9
        os.unlink(sp)
        lines = [l for l in err.split("\n") if l.strip()]
        hard = [l for l in lines if "warning:" not in l]
        # (bash sometimes reports an error on stderr and still exits 0: parser_test.go confirmParse)
        return {"ok": rc == 0 and not hard, "eofwarn": any("delimited by end-of-file" in l for l in lines),
                "err": re.sub(r"^.*?: (line )?\d+: ", "", (hard or lines or [""])[0])[:160]}
    try:
        with ThreadPoolExecutor(max_workers=jobs) as ex:
            return list(ex.map(one, range(len(progs))))
    finally:
        shutil.rmtree(work, ignore_errors=True)


def shell_sig(msg):
    msg = re.sub(r"`[^']*'", lambda m: "`%s'" % norm(m.group(0)[1:-1]), msg)
    return msg[:100]


def norm(s):
    kw = {"for", "do", "done", "if", "then", "fi", "case", "esac", "in", "while", "until", "elif", "else", "EOF", "newline"}
    return re.sub(r"[A-Za-z_][A-Za-z0-9_]*|[0-9]+", lambda m: m.group(0) if m.group(0) in kw else "w", s)


# ------------------------------------------------------------------------------------------------ run
def chars(tok):
    return list(tok) if tok else [" "]


def run(ck):
    import time
    t0 = time.time(); walls = {}

    def lap(name):
        nonlocal t0
        walls[name] = round(time.time() - t0, 1); t0 = time.time()
    h = vlib.build_harness("synrest"); lap("build")
    vecs = syn.generate(ck, ck.tier, ck.seed, emit_sim=False); lap("tlc_shsyntax")
    layouts = syn.load_layouts()
    one = layouts[0]
    core = [v for v in vecs if "bash" in v["v"] and "posix" in v["v"]]
    # ---- programs: (tokens, mut index, kind, src)
    progs = []
    for v in core:
        for L in layouts:
            cr = "\r" in L["sep"] + L["sp"] + L["bg"] + L["final"]
            if cr and len(progs) % 23:      # carriage-return layouts: a thin sample (they witness IntentionalDiff_CRLF)
                continue
            progs.append({"toks": v["r"], "mut": 0, "kind": "base:" + L["name"], "src": render(v["r"], L), "ch": v["ch"], "layout": L["name"]})
    nbase = len(progs)
    # exhaustive part: all single mutations of a small set of core programs that together use every
    # token of the core vocabulary (greedy cover, deterministic); seeded part: a sample of the rest
    budget = 1000 if ck.tier == "quick" else 12000
    by_size = sorted(core, key=lambda v: (len(v["r"]), v["ch"]))
    need, cover = set(t for v in core for t in v["r"]), []
    while need:
        best = max(by_size, key=lambda v: (len(need & set(v["r"])), -len(v["r"])))
        if not need & set(best["r"]):
            break
        cover.append(best); need -= set(best["r"])
    small = [(v, m) for v in cover for m in single_mutations(v["r"])]
    incover = set(id(v) for v in cover)
    rest = [(v, m) for v in core if id(v) not in incover for m in single_mutations(v["r"])]
    ck.rng.shuffle(rest)
    chosen = small + rest[:budget]
    seen_src = set(p["src"] for p in progs)
    # separators written as `; ` and as newlines: the same token sequence can be wrong in one and right in the other
    two = next((L for L in layouts if L["sep"] == "\n" and L["sp"] == " " and not L["comment"]), one)
    ncover = len(small)
    for k, (v, (kind, i, m)) in enumerate(chosen):
        for L in ((one, two) if k < ncover else ((one,) if k % 2 else (two,))):
            try:
                src = render(m, L)
            except Exception:
                continue
            if src in seen_src:
                continue
            seen_src.add(src)
            progs.append({"toks": m, "mut": i, "kind": kind, "src": src, "ch": v["ch"], "layout": L["name"]})
    ck.notes["program_counts"] = {"core_derivations": len(core), "of_derivations": len(vecs), "base_programs": nbase,
                            "single_mutations_all": len(small) + len(rest), "mutations_run": len(progs) - nbase,
                            "covering_programs_mutated_exhaustively": len(cover), "their_mutations": len(small)}
    # ---- syntax.Parser
    res = vlib.run_harness(h, "accept", [{"src": p["src"], "langs": LANGS} for p in progs], shards=4, timeout=1500); lap("impl")
    for p, r in zip(progs, res):
        if "panic" in r:
            ck.violation("panic|" + r["panic"][:150], {"vector": {"src": p["src"], "lang": "bash"}, "impl": r})
            r = {l: {"ok": False, "class": "rejected", "sig": "panic", "err": "panic"} for l in LANGS}
        p["impl"] = r
    # ---- the shells
    srcs = [p["src"] for p in progs]
    risky = [wrapper_risky(p["src"], p["mut"] > 0) for p in progs]
    wrapped = {lang: run_wrapped(SHELL[lang], srcs) for lang in LANGS}
    # real `-n` processes for BOTH shells on the same programs, up to a cap (process creation is the
    # bottleneck): the validation sample, then the programs that are risky for the wrapper (unmutated
    # ones first).  Disagreements seen only through the wrapper are confirmed by real runs further down,
    # after TLC has said which of them are not excused.
    cap = 420 if ck.tier == "quick" else 2500
    unanswered = set(i for i in range(len(progs)) if any(wrapped[l][i] is None for l in LANGS))
    cand = [i for i in range(len(progs)) if not risky[i] and i not in unanswered]
    ck.rng.shuffle(cand)
    sample = cand[:60 if ck.tier == "quick" else 600]
    rk = [i for i in range(len(progs)) if risky[i] or i in unanswered]
    ck.rng.shuffle(rk)
    rk.sort(key=lambda i: progs[i]["mut"] > 0)
    room = max(0, cap - len(sample))
    dropped = set(rk[room:])
    dis = []
    order = sorted(set(dis) | set(sample) | set(rk[:room]))
    for i in dropped:
        progs[i]["unjudged"] = set(LANGS)
    real_done = set(order)
    for lang in LANGS:
        sh = SHELL[lang]
        real = dict(zip(order, run_real(sh, [srcs[i] for i in order])))
        bad = [i for i in sample if real[i]["ok"] != wrapped[lang][i]]
        ck.notes.setdefault("shell_runs", {})[lang] = {"wrapped_in_one_process": len(srcs), "real_n_runs": len(order),
                                                       "of_which_wrapper_validation": len(sample), "wrapper_mismatches": len(bad),
                                                       "risky_for_the_wrapper": len(rk), "risky_not_judged_cap": len(dropped)}
        if bad:
            raise vlib.Inconclusive("the function wrapper changes %s's verdict for %s" % (sh, json.dumps([srcs[i] for i in bad[:3]])))
        for i, p in enumerate(progs):
            p.setdefault("shell", {})[lang] = real[i] if i in real else {"ok": bool(wrapped[lang][i]), "eofwarn": False, "err": ""}
    lap("shells")
    # bash's own end-of-file warning is evidence for both variants (dash says nothing)
    # ---- observations for TLC: every unmutated program and every disagreement
    obs, where = [], {}
    for k, p in enumerate(progs):
        for lang in LANGS:
            if lang in p.get("unjudged", ()):
                continue
            io, so = p["impl"][lang]["ok"], p["shell"][lang]["ok"]
            ck.cov["evaluations"] += 1
            if p["mut"] == 0 or io != so:
                o = {"id": len(obs), "lang": lang, "toks": [chars(t) for t in p["toks"]], "mut": min(p["mut"], len(p["toks"])),
                     "impl": "ok" if io else p["impl"][lang]["class"], "shell": "ok" if so else "rejected",
                     "eofwarn": bool(p["shell"]["bash"].get("eofwarn")), "cr": "\r" in p["src"]}
                where[o["id"]] = (k, lang)
                obs.append(o)
    if os.environ.get("VERIF_C12_CORRUPT"):
        # development self-test: flipping the recorded parser verdict of unmutated programs must be noticed
        # (a flipped shell verdict would be healed by the real -n confirmation run)
        for o in obs[::37]:
            if o["mut"] == 0 and o["impl"] == "ok" and o["shell"] == "ok":
                o["impl"] = "rejected"
    work = vlib.scratch("c12-")
    try:
        tp = os.path.join(work, "obs.ndjson")
        with open(tp, "w") as f:
            for o in obs:
                f.write(json.dumps(o) + "\n")
        t = vlib.run_tlc("ShRecognizer", "ShRecognizer.cfg", workers=1, timeout=1500, env_extra={"VERIF_TRACE": tp}, tags=("EXC", "UNX"))
    finally:
        shutil.rmtree(work, ignore_errors=True)
    ck.add_tlc(t); lap("tlc_recognizer")
    if not t.ok:
        raise vlib.Inconclusive("ShRecognizer: a law of the difference contract fails on the observations:\n" + (t.violation or t.raw_tail))
    exc = {d["id"]: d["names"] for d in t.vecs.get("EXC", [])}
    unx = set(d["id"] for d in t.vecs.get("UNX", []))
    # ---- every disagreement that would be reported is first confirmed by real `-n` runs
    report_ids = set(unx) | set(i for i, ns in exc.items() if any(n.startswith("Dev_") for n in ns))
    confirm = sorted(set(where[i][0] for i in report_ids if where[i][0] not in real_done))
    refuted = 0
    if confirm:
        for lang in LANGS:
            for k, r in zip(confirm, run_real(SHELL[lang], [srcs[k] for k in confirm])):
                if r["ok"] != progs[k]["shell"][lang]["ok"]:
                    refuted += 1
                progs[k]["shell"][lang] = r
    ck.notes["disagreements_confirmed_by_real_runs"] = {"programs": len(confirm), "wrapper_verdicts_refuted": refuted}
    if refuted > 10:
        ex = [srcs[k] for k in confirm if any(not progs[k]["impl"][l]["ok"] == progs[k]["shell"][l]["ok"] for l in LANGS) is False][:4]
        raise vlib.Inconclusive("the function wrapper gave %d verdicts that real -n runs refute, e.g. %s" % (refuted, json.dumps(ex)))
    for o in obs:      # the real run wins over the wrapper
        k, lang = where[o["id"]]
        o["shell"] = "ok" if progs[k]["shell"][lang]["ok"] else "rejected"
    lap("confirm")
    # ---- verdicts
    excused = collections.Counter()
    seen = {}
    agree = collections.Counter()
    for o in obs:
        k, lang = where[o["id"]]
        p = progs[k]
        io, so = o["impl"] == "ok", o["shell"] == "ok"
        if io == so:
            if p["mut"] == 0 and not io:
                # neither the parser nor the shell accepts a program the grammar spec calls valid in both
                ck.drift({"vector": {"src": p["src"], "lang": lang}, "impl": p["impl"][lang], "shell": p["shell"][lang]})
            continue
        rec = {"vector": {"src": p["src"], "lang": lang, "toks": p["toks"], "mut": p["mut"], "kind": p["kind"]},
               "impl": p["impl"][lang], "shell": p["shell"][lang]}
        if o["id"] in exc:
            devs = [n for n in exc[o["id"]] if n.startswith("Dev_")]
            for n in exc[o["id"]]:
                if not devs:
                    excused[n] += 1
            for n in devs:
                # a named deviation of the spec: a known defect, reported under its name
                if n not in seen or len(p["src"]) < len(seen[n]["vector"]["src"]):
                    seen[n] = dict(rec, spec="named deviation %s of ShRecognizer" % n)
                ck.violation(n, seen[n])
            continue
        if o["id"] not in unx:
            raise vlib.Inconclusive("observation %d was not judged by TLC" % o["id"])
        if io:
            key = "%s|parser accepts, %s rejects|%s" % (lang, SHELL[lang], shell_sig(p["shell"][lang]["err"]))
        else:
            key = "%s|parser rejects, %s accepts|%s" % (lang, SHELL[lang], re.sub(r' near ".*$', "", p["impl"][lang].get("sig", ""), flags=re.S)[:120])
        rec["spec"] = "no named difference of ShRecognizer applies"
        if key not in seen or len(p["src"]) < len(seen[key]["vector"]["src"]):
            seen[key] = rec
        ck.violation(key, seen[key])
    nt = 0
    for p in progs:
        for lang in LANGS:
            if lang not in p.get("unjudged", ()):
                agree[(p["impl"][lang]["ok"], p["shell"][lang]["ok"])] += 1
        if p["mut"] > 0 and any(not p["shell"][l]["ok"] for l in LANGS) and any(p["shell"][l]["ok"] for l in LANGS):
            nt += 1
        elif p["mut"] > 0 and not p["shell"]["bash"]["ok"]:
            nt += 1
    for p in progs:
        if p["mut"] > 0 and not p["impl"]["bash"]["ok"] and not p["shell"]["bash"]["ok"] and len(ck.cov["samples"]) < 3:
            ck.sample({"src": p["src"], "mutation": p["kind"], "parser_bash": p["impl"]["bash"].get("err"), "bash_n": p["shell"]["bash"]["err"] or "rejected",
                       "parser_posix_ok": p["impl"]["posix"]["ok"], "dash_n_ok": p["shell"]["posix"]["ok"]})
    ck.cov["traces_validated_against_impl"] = len(progs) * 2
    ck.cov["programs"] = len(progs)
    ck.cov["disagreements_checked"] = sum(1 for o in obs if (o["impl"] == "ok") != (o["shell"] == "ok"))
    ck.cov["distinct_nontrivial"] = nt
    ck.cov["exhaustive"] = True
    ck.cov["rule"] = ("every core derivation of ShSyntax (valid in bash and posix, TLC BFS) x layouts; every single-token mutation of a "
                      "token-covering set of %d core programs and a seeded sample of %d mutations of the others; each x 2 variants against "
                      "the real shell.  non-trivial = mutated program that a shell rejects" % (len(cover), budget))
    ck.notes["agreement"] = {"parser_%s/shell_%s" % ("ok" if a else "rej", "ok" if b else "rej"): n for (a, b), n in sorted(agree.items())}
    ck.notes["excused_by_named_difference"] = dict(excused)
    ck.notes["observations_judged_by_tlc"] = len(obs)
    ck.notes["wall_parts_s"] = walls
    ck.assumptions += ["bash 5.2.15 and dash as installed are the oracles (bash -n / dash -n exit status; non-warning stderr counts as rejection)",
                       "`command eval` of the program wrapped in a function body stands for `-n` where the wrapper cannot change acceptance; "
                       "every reported disagreement and a seeded sample are re-run as real -n processes",
                       "regions the shells parse lazily (backquotes, $(( )), ${ }) are outside what -n can judge (LazyShell_* predicates)"]


def replay(ck, rec):
    h = vlib.build_harness("synrest")
    v = rec["vector"]
    lang = v["lang"]
    r = vlib.run_harness(h, "accept", [{"src": v["src"], "langs": [lang]}])[0]
    if "panic" in r:
        ck.violation(rec["key"], {"vector": v, "impl": r}); return
    s = run_real(SHELL[lang], [v["src"]])[0]
    if r[lang]["ok"] != s["ok"]:
        ck.violation(rec["key"], {"vector": v, "impl": r[lang], "shell": s})
