# C23 read splits lines like bash.  Spec: ShRead (Style F: byte-at-a-time line reader + SplitRead).
# TLC enumerates (IFS, input stream, mode, -r), checks the laws and emits one vector per state with
# the status, the values the spec requires and the unread rest of the input.  Each vector is
#   (a) run by the real interpreter: the input is written to a file, `read` reads from it and a
#       second `IFS= read -r` shows what was left unread (engine shfast);
#   (a') for inputs that are exactly one terminated line: also `IFS=.. read .. <<'EOF'` (here-doc,
#       IFS as a prefix assignment);
#   (b) split by expand.ReadFields directly (engine readfields) on the line the builtin passes;
#   (c) run by bash 5.2 -- three-way verdict of DESIGN section 3.
import json
import vlib

LEVEL = "model_checking"


def raw(text):
    return vlib.unchars(text).encode("utf-8").decode("latin-1")


def sq(s):
    return "'" + s.replace("'", "'\\''") + "'"


NAMES = {"reply": [], "n1": ["x1"], "n2": ["x1", "x2"], "n3": ["x1", "x2", "x3"], "n4": ["x1", "x2", "x3", "x4"],
         "array": ["arr"]}


def read_cmd(v):
    return "read" + (" -r" if v["raw"] else "") + (" -a" if v["mode"] == "array" else "") + "".join(
        " " + n for n in NAMES[v["mode"]])


def printer(v):
    m = v["mode"]
    if m == "reply":
        return "printf '<%s>' \"$REPLY\""
    if m == "array":
        return "printf '%s' \"${#arr[@]}\"; for e in \"${arr[@]}\"; do printf '<%s>' \"$e\"; done"
    return "printf '<%s>' " + " ".join('"$%s"' % n for n in NAMES[m])


RESET = "unset IFS x1 x2 x3 x4 REPLY arr r2; "


def body_file(v):
    ifs = "IFS=%s; " % sq(raw(v["ifs"]["val"])) if v["ifs"]["set"] else ""
    return ("printf '%%s' %s > f; { %s%s; st=$?; IFS= read -r r2; s2=$?; } < f; unset IFS; printf '%%s:' \"$st\"; %s; "
            "printf '|%%s:[%%s]' \"$s2\" \"$r2\"") % (sq(raw(v["inp"])), ifs, read_cmd(v), printer(v))


def body_heredoc(v):
    ifs = "IFS=%s " % sq(raw(v["ifs"]["val"])) if v["ifs"]["set"] else ""
    return "%s%s <<'EOF'\n%sEOF\nst=$?; printf '%%s:' \"$st\"; %s" % (ifs, read_cmd(v), raw(v["inp"]), printer(v))


def values(fields, mode):
    return ("%d" % len(fields) if mode == "array" else "") + "".join("<%s>" % f for f in fields)


def expected_file(v, fields):
    return "%d:%s|%d:[%s]" % (v["status"], values(fields, v["mode"]), v["s2"], raw(v["r2"]))


def expected_heredoc(v, fields):
    return "%d:%s" % (v["status"], values(fields, v["mode"]))


def heredoc_ok(v):
    return v["status"] == 0 and not v["rest"] and "EOF" not in raw(v["inp"])


def describe(v):
    return "IFS=%s %s input=%s" % (json.dumps(raw(v["ifs"]["val"])) if v["ifs"]["set"] else "unset", read_cmd(v),
                                   json.dumps(raw(v["inp"])))


def evaluate(ck, vecs, h):
    vecs = [v for v in vecs if not v["dangling"] or v.get("force")]
    jobs = []   # (vector, kind, script)
    for v in vecs:
        jobs.append((v, "file", body_file(v)))
        if heredoc_ok(v):
            jobs.append((v, "heredoc", body_heredoc(v)))
    direct = [v for v in vecs if v["mode"] != "reply"]
    from concurrent.futures import ThreadPoolExecutor
    with ThreadPoolExecutor(max_workers=3) as ex:     # the three bindings run side by side
        f_i = ex.submit(vlib.run_harness, h, "shfast", [{"src": RESET + s + "\n"} for _, _, s in jobs], shards=8)
        f_b = ex.submit(vlib.run_shell_evals, [RESET + s for _, _, s in jobs], locale="C.utf8", jobs=4, per_process=4000)
        f_d = ex.submit(vlib.run_harness, h, "readfields", [
            {"line": raw(v["line"]), "ifs": {"set": v["ifs"]["set"], "val": raw(v["ifs"]["val"])},
             "n": -1 if v["mode"] == "array" else len(NAMES[v["mode"]]), "raw": v["raw"]} for v in direct], shards=4)
        ires, bres, dres = f_i.result(), f_b.result(), f_d.result()

    def verdict(v, eng, script, spec, dev, impl, bash):
        ck.cov["evaluations"] += 1
        ck.cov["traces_validated_against_impl"] += 1
        if impl == spec and (bash is None or bash == spec):
            return True
        rec = {"vector": v, "engine": eng, "script": script, "spec": spec, "impl": impl, "bash": bash}
        if bash is not None and impl == bash and bash != spec:
            ck.drift(rec); return True
        # the empty-array artifact of the builtin: count 0 but "${arr[@]}" yields one empty word
        art = (lambda s, fs: s.replace(":0", ":0<>", 1) if v["mode"] == "array" and not fs and eng.startswith("read builtin") else None)
        if v["nws"] and v["devdiff"] and impl in (dev, art(dev, v["dev"])) and (bash is None or bash == spec):
            key = "Dev_ReadFieldsNws"
        elif v["esctrail"] and v["devdiff"] and impl == dev and (bash is None or bash == spec):
            key = "Dev_ReadEscTrailWs"
        elif impl == art(spec, v["exp"]) and (bash is None or bash == spec):
            key = "read -a of a line without words: \"${arr[@]}\" expands to one empty word (count is 0)"
        else:
            key = "%s: %s" % (eng, describe(v))
        rec["spec_agrees_with_bash"] = (bash is None or bash == spec)
        ck.violation(key, rec)
        return False

    for (v, kind, script), ir, br in zip(jobs, ires, bres):
        fs = [raw(f) for f in v["exp"]]
        ds = [raw(f) for f in v["dev"]]
        if v.get("corrupt"):
            fs = fs + ["corrupted"]
        if kind == "file":
            spec, dev = expected_file(v, fs), expected_file(v, ds)
        else:
            spec, dev = expected_heredoc(v, fs), expected_heredoc(v, ds)
        if ir.get("panic"):
            ck.cov["evaluations"] += 1
            ck.violation("panic in interp: %s [%s]" % (ir["panic"][:80], describe(v)), {"vector": v, "impl": ir}); continue
        impl = ir["out"] if not ir.get("parse_error") and not ir.get("run_error") else "error: %s%s" % (
            ir.get("parse_error", ""), ir.get("run_error", ""))
        if v["mbquirk"]:
            ck.notes["bash_skipped_mbquirk"] = ck.notes.get("bash_skipped_mbquirk", 0) + 1
        bash = None if (v["mbquirk"] or v.get("corrupt")) else br["out"]
        if bash is not None and "\x01" in bash:
            # bash leaked its internal escape byte (no input contains \001): e.g. `read x` on '\  \ '
            # gives <\001>; such an output is not a reference value
            ck.notes["bash_skipped_ctlesc_leak"] = ck.notes.get("bash_skipped_ctlesc_leak", 0) + 1
            bash = None
        ok = verdict(v, "read builtin (%s)" % kind, script, spec, dev, impl, bash)
        if kind == "file" and v["nontrivial"]:
            ck.cov["distinct_nontrivial"] += 1
            if ok:
                ck.sample({"script": script, "spec": spec, "interp": impl, "bash": br["out"]}, cap=4)
    for v, dr in zip(direct, dres):
        if "panic" in dr:
            ck.cov["evaluations"] += 1
            ck.violation("panic in expand.ReadFields: %s [%s]" % (dr["panic"][:80], describe(v)), {"vector": v, "impl": dr}); continue
        if "harness_error" in dr:
            raise vlib.Inconclusive(dr["harness_error"])
        n = len(NAMES[v["mode"]])
        pad = (lambda fs: fs + [""] * (n - len(fs))) if v["mode"] != "array" else (lambda fs: fs)
        fs = [raw(f) for f in v["exp"]]
        if v.get("corrupt"):
            fs = fs + ["corrupted"]
        verdict(v, "expand.ReadFields", "ReadFields(%s, n=%d, raw=%s)" % (json.dumps(raw(v["line"])), n, v["raw"]),
                values(fs, v["mode"]), values([raw(f) for f in v["dev"]], v["mode"]),
                values(pad(dr["fields"]), v["mode"]), None)


def run(ck):
    h = vlib.build_harness("fields")
    t = vlib.run_tlc("ShRead", "ShRead.%s.cfg" % ck.tier, workers=8 if ck.tier == "quick" else 16, timeout=3000)
    ck.add_tlc(t)
    if not t.ok:
        raise vlib.Inconclusive("ShRead: the contract model violates its own laws:\n" + (t.violation or t.raw_tail))
    vecs = t.vecs.get("VEC", [])
    ck.notes["vectors"] = len(vecs)
    ck.notes["skipped_dangling_backslash"] = sum(1 for v in vecs if v["dangling"])
    ck.cov["exhaustive"] = True
    ck.cov["rule"] = ("every input stream up to the length bound over the per-IFS alphabet x IFS menu x mode (bare, 1..n names, "
                      "-a) x -r when the input has a backslash (TLC BFS, one vector per state); evaluations = runs of the "
                      "read builtin from a file + from a here-doc (single terminated lines) + direct ReadFields calls; "
                      "distinct_nontrivial = vectors whose line has an IFS delimiter or an escaped character")
    ck.assumptions += ["bash 5.2.15 in LC_ALL=C.utf8 as the reference shell",
                       "inputs that end in a lone backslash without -r are out of scope (bash leaks \\001 there)",
                       "a bash output containing \\001 (leaked internal escape byte) is not used as reference (counted)",
                       "the direct ReadFields binding has no bash oracle of its own (same expected values as the builtin)"]
    for o in range(0, len(vecs), 60000):
        evaluate(ck, vecs[o:o + 60000], h)


def replay(ck, rec):
    h = vlib.build_harness("fields")
    v = dict(rec["vector"]); v["force"] = True
    evaluate(ck, [v], h)
