# C15 Typed JSON round-trips syntax trees.   Spec: ShTypedJson (Style F).
#
# (1) TLC builds every abstract tree up to MaxCh choices over a schema that uses the real node and
#     field names (one field of every category) and checks RoundTrip (Dec(Enc(t)) = StripRecovered(t)),
#     ReEncode, StripIdem; then applies every single mutation (delete a key, retype a value to every
#     JSON type incl. negative/fractional/2^32/1e400 numbers, set/remove "Type") to every encoding
#     and checks DecTotal / DecSound.  Every tree and every mutated document is emitted.
# (2) Binding of the model: each emitted document is fed to the real typedjson.Decode:
#       tree vectors: Decode succeeds, the reflection projection of the decoded tree equals the
#       spec's StripRecovered(t), and Encode(Decode(doc)) minus the derived Pos/End keys = doc;
#       mut vectors: Decode must not panic; accept/reject is compared with the spec's verdict
#       (a disagreement is spec drift, not a property violation -- the property only demands
#       that Decode returns).
# (3) Real trees: corpus (+ grammar generator in thorough) x 5 variants x {plain, RecoverErrors(5)},
#     root and sub-nodes as roots: Decode(Encode(n)) equals n field by field with recovered
#     positions unset, re-encoding byte-identical; the spec's mutation descriptors applied to
#     the real encodings (same document order) and the spec's nesting bombs: Decode must return.
import json, os, time
import vlib, corpus

LEVEL = "model_checking"


def issue_key(iss):
    """Key of an issue found on a real tree: the named deviation, or what + node kind + field name."""
    import re
    if iss["what"].startswith("Dev_"):
        return iss["what"].split(" ")[0]
    key = "%s [%s]" % (iss["what"], iss["kind"])
    if "differs" in iss["what"] or "byte-identical" in iss["what"]:
        # name the field, not the instance
        fld = re.sub(r"\[\d+\]", "", iss["info"].split(": ")[-2] if iss["info"].count(": ") >= 2 else iss["info"].split(":")[0])
        key = "%s [%s] %s" % (iss["what"], iss["kind"], fld.split(".")[-1] if "." in fld else "")
    return key


def run(ck):
    quick = ck.tier == "quick"
    h = vlib.build_harness("synaux")
    t0 = time.time()
    t = vlib.run_tlc("ShTypedJson", "ShTypedJson.%s.cfg" % ck.tier, workers=8 if quick else 16, timeout=1500)
    ck.notes["t_tlc"] = round(time.time() - t0, 1)
    ck.add_tlc(t)
    if not t.ok:
        raise vlib.Inconclusive("ShTypedJson: codec contract inconsistent:\n" + (t.violation or t.raw_tail))
    vecs = t.vecs.get("VEC", [])
    stat = t.vecs.get("STAT", [])
    if not vecs or len(stat) != 1:
        raise vlib.Inconclusive("ShTypedJson emitted nothing")
    stat = stat[0]
    ntree = sum(1 for v in vecs if v["kind"] == "tree")
    ck.notes["model_trees"] = ntree
    ck.notes["model_mutated_docs"] = len(vecs) - ntree
    if os.environ.get("VERIF_C15_CORRUPT") == "1":
        # self-test of the binding only: damage the specified tree of every 20th tree vector
        for v in [x for x in vecs if x["kind"] == "tree" and isinstance(x["strip"]["v"], dict) and x["strip"]["v"]][::20]:
            v["strip"]["v"].pop(sorted(v["strip"]["v"])[0])
    # ---- (2) the model's documents on the real codec
    t0 = time.time()
    res = vlib.run_harness(h, "tjvec", vecs, shards=8, timeout=1700)
    ck.notes["t_tjvec"] = round(time.time() - t0, 1)
    disagree = 0
    for v, r in zip(vecs, res):
        if "harness_error" in r:
            raise vlib.Inconclusive("harness: " + r["harness_error"])
        ck.cov["evaluations"] += 1
        ck.cov["traces_validated_against_impl"] += 1
        vec = {"kind": "vec", "vec": v}
        if "panic" in r or "decode_panic" in r:
            ck.violation("Decode panics: " + (r.get("decode_panic") or r.get("panic"))[:120], {"vector": vec, "impl": r}); continue
        if v["kind"] == "tree":
            if len(v["ch"]) > 2:
                ck.cov["distinct_nontrivial"] += 1
            if not r["ok"]:
                ck.violation("Decode rejects the specified encoding of a tree: " + r.get("err", "")[:100], {"vector": vec, "impl": r, "spec": {"ok": True}})
            elif "tree_differs" in r:
                ck.violation("decoded tree differs from StripRecovered(t)", {"vector": vec, "impl": r["tree_differs"]["got"], "spec": r["tree_differs"]["want"]})
            elif "reencode_differs" in r or "reencode_unparsable" in r or "encode_err" in r or "encode_panic" in r:
                ck.violation("Encode(Decode(Enc(t))) differs from Enc(t)", {"vector": vec, "impl": r, "spec": r.get("text")})
            elif len(ck.cov["samples"]) < 3 and 3 < len(v["ch"]) < 7:
                ck.sample({"choices": v["ch"], "doc": r["text"][:400]})
        else:
            ck.cov["distinct_nontrivial"] += 1
            if r["ok"] != v["ok"]:
                disagree += 1
                ck.drift({"vector": vec, "spec": {"ok": v["ok"], "why": v["why"]}, "impl": {"ok": r["ok"], "err": r.get("err")}, "doc": r["text"][:300]})
    ck.notes["accept_reject_disagreements"] = disagree
    # ---- (3) real trees
    extra = []
    if not quick or os.environ.get("VERIF_GEN"):
        extra = corpus.generated(ck, "quick")
        ck.rng.shuffle(extra)
        extra = extra[:5000]
        ck.notes["generated_sources"] = len(extra)
    cl = corpus.classified(h, extra)
    srcs = [s for s, ok in cl]
    if quick:
        idx = list(range(len(srcs)))
        ck.rng.shuffle(idx)
        tricky = set(corpus.TRICKY)
        keep = set(idx[:1200]) | {i for i, s in enumerate(srcs) if s in tricky}
        srcs = [s for i, s in enumerate(srcs) if i in keep]
    descs = {}
    for v in vecs:
        if v["kind"] == "mut":
            for m in v["muts"]:
                descs[(m["op"], m["k"], m["arg"])] = m
    descs = [descs[k] for k in sorted(descs)]
    ck.notes["mutation_descriptors"] = len(descs)
    bombs = [dict(d, depth=n) for d in stat["nest"] for n in stat["depths"]]
    per = 30 if quick else 60
    rvecs = []
    for i, s in enumerate(srcs):
        ms = ck.rng.sample(descs, min(per, len(descs)))
        rvecs.append({"src": s, "langs": corpus.VARIANTS, "seed": ck.seed * 15485863 + i, "muts": ms,
                      "retypes": stat["retypes"], "maxsub": 25 if quick else 100,
                      "bombs": bombs if i % 200 == 0 else []})
    t0 = time.time()
    res = vlib.run_harness(h, "tjreal", rvecs, shards=12, timeout=1700)
    ck.notes["t_tjreal"] = round(time.time() - t0, 1)
    kinds = set()
    for v, r in zip(rvecs, res):
        if "harness_error" in r:
            raise vlib.Inconclusive("harness: " + r["harness_error"])
        if "panic" in r:
            ck.violation("harness-level panic: " + r["panic"][:100], {"vector": {"kind": "real", "src": v["src"]}, "impl": r}); continue
        ck.cov["evaluations"] += r["roots"] + r["mut_runs"]
        ck.cov["traces_validated_against_impl"] += r["roots"]
        ck.cov["distinct_nontrivial"] += r["roots"]
        for k in ("trees", "roots", "mut_runs", "mut_ok", "recovered_trees", "nil_vs_empty"):
            ck.notes["real_" + k] = ck.notes.get("real_" + k, 0) + r[k]
        kinds.update(r["kinds"])
        for iss in r["issues"]:
            key = issue_key(iss)
            ck.violation(key, {"vector": {"kind": "real", "src": v["src"], "lang": iss["lang"], "rec": iss["rec"]},
                               "impl": iss})
    ck.notes["real_sources"] = len(rvecs)
    ck.notes["node_kinds_seen"] = sorted(kinds)
    ck.cov["exhaustive"] = True
    ck.cov["rule"] = ("evaluations = documents decoded by the real typedjson.Decode: every tree/mutated document TLC emitted, "
                      "every real root or sub-node round trip, every mutated real encoding; distinct_nontrivial = model "
                      "trees with more than 2 choices + mutated model documents + real round trips; exhaustive refers to "
                      "the model part (all abstract trees up to MaxCh choices x all single mutations)")
    ck.assumptions += ["abstract schema = 9 real node kinds + Expansion, one field of every category; other kinds are covered "
                       "only through real parsed trees",
                       "accept/reject disagreements between the spec's Dec and the real Decode are counted as spec drift: the "
                       "property demands only that Decode returns"]


def replay(ck, rec):
    h = vlib.build_harness("synaux")
    v = rec["vector"]
    if v.get("kind") == "vec":
        r = vlib.run_harness(h, "tjvec", [v["vec"]])[0]
        if "decode_panic" in r or "panic" in r:
            ck.violation("Decode panics: " + (r.get("decode_panic") or r.get("panic"))[:120], {"vector": v, "impl": r})
        elif v["vec"]["kind"] == "tree" and (not r.get("ok") or any(k in r for k in ("tree_differs", "reencode_differs"))):
            ck.violation("model tree vector fails on the real codec", {"vector": v, "impl": r})
        return
    t = vlib.run_tlc("ShTypedJson", "ShTypedJson.quick.cfg", workers=4, timeout=600)
    stat = t.vecs["STAT"][0]
    descs = {}
    for x in t.vecs["VEC"]:
        if x["kind"] == "mut":
            for m in x["muts"]:
                descs[(m["op"], m["k"], m["arg"])] = m
    vec = {"src": v["src"], "langs": [v["lang"]] if v.get("lang") else corpus.VARIANTS, "seed": 1, "muts": list(descs.values()),
           "retypes": stat["retypes"], "maxsub": 0, "bombs": []}
    r = vlib.run_harness(h, "tjreal", [vec])[0]
    for iss in r.get("issues", []):
        ck.violation(issue_key(iss), {"vector": v, "impl": iss})
