# C33 (extension): associative arrays.  Spec: ShAssoc (Style S).
# Every EDGE of the TLC state graph is one shell program `<from state>; OP; dump` run by interp and
# bash and compared with the dump the spec defines for the target state; seeded random walks over
# the emitted graph (dump after every step) in three contexts.  bash lists elements in hash order:
# the value list and the key list are compared as multisets (sorted here), the rest exactly.
import json
import re
import vlib


def kq(k):
    return "'%s'" % k if " " in k else k


def q(v):
    return v if v else "''"


def stkey(st):
    return json.dumps([st["kind"], sorted((k, st["vals"][k]) for k in st["keys"] if st["keys"][k])])


def dump_fn(keys):
    return ("d() { if [[ $1 == none ]]; then printf 'none|%s|%s|' \"${#h[@]}\" \"${h+S}\"; printf '<%s>' \"${h[@]}\"; echo; return; fi; "
            "printf '%s|' \"${#h[@]}\"; for k in " + " ".join(kq(k) for k in keys) +
            "; do printf '%s:%s;' \"${h[$k]}\" \"${h[$k]+S}\"; done; printf '|'; printf '<%s>' \"${h[@]}\"; "
            "printf '|'; printf '<%s>' \"${!h[@]}\"; echo; }\n")


def fmt(lst):
    return "".join("<%s>" % e for e in sorted(lst)) if lst else "<>"


def dump_expected(vec, keys):
    st = vec["st"]
    if st["kind"] == "none":
        return "none|0||<>\n"
    present = [k for k in keys if st["keys"][k]]
    return "%d|%s|%s|%s\n" % (vec["count"], "".join("%s:%s;" % (vec["elems"][k], "S" if vec["isset"][k] else "") for k in keys),
                              fmt([st["vals"][k] for k in present]), fmt(present))


def norm(out):
    """Sort the <..> tokens of the value and key lists of every dump line (hash order is unspecified)."""
    lines = []
    for ln in out.split("\n"):
        f = ln.split("|")
        if len(f) == 4 and f[0] != "none":
            f[2] = "".join(sorted(re.findall(r"<[^<>]*>", f[2])))
            f[3] = "".join(sorted(re.findall(r"<[^<>]*>", f[3])))
        lines.append("|".join(f))
    return "\n".join(lines)


def render_state(st, keys):
    if st["kind"] == "none":
        return "unset h"
    return "unset h; declare -A h=(" + " ".join("[%s]=%s" % (kq(k), q(st["vals"][k])) for k in keys if st["keys"][k]) + ")"


def render_op(act, a):
    if act == "set":
        return "h[%s]=%s" % (kq(a[0]), q(a[1]))
    if act == "appendk":
        return "h[%s]+=%s" % (kq(a[0]), q(a[1]))
    if act == "unset":
        return "unset 'h[%s]'" % a[0]
    if act == "clear":
        return "h=()"
    if act == "assign2":
        return "h=([%s]=%s [%s]=%s)" % (kq(a[0]), q(a[1]), kq(a[2]), q(a[3]))
    if act == "appendpair":
        return "h+=([%s]=%s)" % (kq(a[0]), q(a[1]))
    if act == "unsetall":
        return "unset h"
    if act in ("declare", "redeclare"):
        return "declare -A h"
    raise ValueError(act)


def darg(st):
    return "d none" if st["kind"] == "none" else "d"


def run_assoc(ck, h, three_way):
    t = vlib.run_tlc("ShAssoc", "ShAssoc.%s.cfg" % ck.tier, workers=4, timeout=1500)
    ck.add_tlc(t)
    if not t.ok:
        raise vlib.Inconclusive("ShAssoc: the contract model is inconsistent:\n" + (t.violation or t.raw_tail))
    vecs = t.vecs.get("VEC", [])
    states = {stkey(v["st"]): v for v in vecs}
    keys = sorted(vecs[0]["st"]["keys"].keys())
    # TLC evaluates an action (and prints its EDGE) once per generated successor; keep distinct edges
    edges, seen = [], set()
    for e in t.vecs.get("EDGE", []):
        k = json.dumps(e, sort_keys=True)
        if k not in seen:
            seen.add(k); edges.append(e)
    ck.notes["assoc_states"] = len(states)
    ck.notes["assoc_edges"] = len(edges)
    progs = []
    for e in edges:
        src = dump_fn(keys) + render_state(e["from"], keys) + "\n" + render_op(e["act"], e["args"]) + "\n" + darg(e["to"]) + "\n"
        progs.append({"kind": "assoc", "src": src, "exp": dump_expected(states[stkey(e["to"])], keys),
                      "nontrivial": e["from"] != e["to"] or e["act"] in ("unset", "redeclare")})
    adj = {}
    for e in edges:
        adj.setdefault(stkey(e["from"]), []).append(e)
    nwalks = 90 if ck.tier == "quick" else 1500
    init = stkey({"kind": "assoc", "keys": {k: False for k in keys}, "vals": {k: "" for k in keys}})
    outer = {"st": {"kind": "assoc", "keys": {k: k == keys[0] for k in keys}, "vals": {k: "g" if k == keys[0] else "" for k in keys}},
             "count": 1, "elems": {k: "g" if k == keys[0] else "" for k in keys}, "isset": {k: k == keys[0] for k in keys}}
    for w in range(nwalks):
        ctxkind = w % 3
        cur = init
        body, exp = [], []
        for _ in range(ck.rng.randint(5, 20)):
            e = ck.rng.choice(adj[cur])
            body.append(render_op(e["act"], e["args"]) + "; " + darg(e["to"]))
            cur = stkey(e["to"])
            exp.append(dump_expected(states[cur], keys))
        if ctxkind == 0:
            src = dump_fn(keys) + "unset h; declare -A h\n" + "\n".join(body) + "\n"
        elif ctxkind == 1:
            src = dump_fn(keys) + "unset h; declare -A h=([%s]=g)\nf() {\nlocal -A h\n" % kq(keys[0]) + "\n".join(body) + "\n}\nf\nd\n"
            exp.append(dump_expected(outer, keys))
        else:
            src = dump_fn(keys) + "unset h; declare -A h=([%s]=g)\n(\nh=()\n" % kq(keys[0]) + "\n".join(body) + "\n)\nd\n"
            exp.append(dump_expected(outer, keys))
        progs.append({"kind": "assoc", "src": src, "exp": "".join(exp), "walk": True, "ctx": ctxkind, "nontrivial": True})
    evaluate(ck, progs, h, three_way)
    ck.notes["assoc_shell_programs"] = len(progs)
    return sum(1 for p in progs if p["nontrivial"])


def split_src(src):
    pre, body = src.split("}\n", 1)
    return pre + "}\n", body


def evaluate(ck, progs, h, three_way):
    ires = vlib.run_harness(h, "interp", [{"src": p["src"]} for p in progs], shards=16)
    prelude = split_src(progs[0]["src"])[0]
    bres = vlib.run_shell_evals(["unset -f f\n" + split_src(p["src"])[1] for p in progs], prelude=prelude)
    for p, ir, br in zip(progs, ires, bres):
        body = split_src(p["src"])[1]
        key = "assoc program " + json.dumps(body[:300])
        rec = {"vector": p}
        if ir.get("panic"):
            ck.cov["evaluations"] += 1
            ck.violation(key + " panic", dict(rec, impl=ir)); continue
        ck.cov["traces_validated_against_impl"] += 1
        spec, impl, bash = (p["exp"], 0), (norm(ir["out"]), ir["status"]), (norm(br["out"]), br["rc"])
        ok = three_way(ck, key, spec, impl, bash, rec)
        if ok and p.get("walk"):
            ck.sample({"program": body[:200], "stdout": p["exp"][:120]}, cap=5)
