# C20 Arithmetic evaluation matches bash.  Spec: ShArith (Style F, choice-sequence builder).
# TLC enumerates expression trees (family 1: one operator over the leaf menu; family 2: every pair
# of nested operators over fixed leaves; simulation: random trees up to depth 3), checks the
# contract's laws and emits for each tree its concrete syntax (minimal / full parentheses) and, for
# every environment of the menu, Eval = value / error / final variables plus the outcome in the
# five contexts.  Each (tree, environment, context, rendering) is one shell program run in the real
# interpreter (generic engine "interp") and in bash; stdout, status and the final variables are
# compared with the spec (three-way verdict, DESIGN section 3).
import json, time
import vlib

LEVEL = "model_checking"
CTXS = ["echo", "paren", "let", "sub", "for"]
PRE = "unset x y z i; a=(10 11 12 13 14 15 16 17 18 19)\n"
DUMP = "printf '%s|' \"${x-U}\" \"${y-U}\" \"${z-U}\" \"${i-U}\""


def join(tokens, compact):
    """Concatenate the spec's tokens; a blank only where the spec says two operator edges meet or
    an angle bracket meets a parenthesis (compact), or between all tokens."""
    out = []
    prev = None
    for t in tokens:
        s = "".join(t["s"])
        if prev is not None and (not compact or (prev["ro"] and t["lo"]) or (prev["ra"] and t["lp"])):
            out.append(" ")
        out.append(s)
        prev = t
    return "".join(out)


def setup(env):
    parts = []
    for name, v in zip("xyz", env):
        if v["k"] == "int":
            parts.append("%s=%d" % (name, v["n"]))
        elif v["k"] == "txt":
            parts.append("%s='%s'" % (name, v["s"]))
    return "; ".join(parts) + ("\n" if parts else "")


def command(ctx, e):
    if ctx == "echo":
        return "echo $(( %s ))" % e
    if ctx == "paren":
        return "(( %s ))" % e
    if ctx == "let":
        return 'let "%s"' % e
    if ctx == "sub":
        return 'echo "${a[%s]}"' % e
    return "for (( i = ( %s ) ; 0 ; )); do :; done" % e


def showenv(env, i):
    vals = []
    for v in env:
        vals.append("U" if v["k"] == "unset" else str(v["n"]) if v["k"] == "int" else v["s"])
    vals.append(str(i[0]) if i else "U")
    return "".join(x + "|" for x in vals)


def expected(out):
    """What a context outcome of the spec looks like: [stdout, status, dump of x y z i]."""
    return ["".join("%s\n" % n for n in out["print"]), out["rc"], showenv(out["env"], out["i"])]


def predictable(c, ci):
    """The context can show the value under the contract and under every deviation set the spec
    lists (subscript not below the array, no overflow / shift count outside the property)."""
    outs = [c["out"][ci]] + [d[ci] for d in c["devs"]]
    return all(o["inscope"] and not o["oos"] for o in outs)


VARIANTS = [("echo", False, False), ("paren", True, True), ("let", False, True), ("sub", False, False), ("for", True, False),
            ("echo", True, True), ("paren", False, True), ("let", True, False), ("sub", True, True),
            ("for", False, True), ("echo", False, True), ("paren", True, False), ("let", False, False),
            ("sub", False, True), ("for", True, True), ("echo", True, False), ("paren", False, False),
            ("let", True, True), ("sub", True, False), ("for", False, False)]


def programs(vecs, per_case):
    """One record per program: per case the next per_case renderings (context, parentheses,
    spacing) of the rotation VARIANTS."""
    progs = []
    k = 0
    for v in vecs:
        for c in v["cases"]:
            if c["oos"]:
                continue        # overflow / shift count outside the property
            chosen = []
            for _ in range(per_case):
                chosen.append(VARIANTS[k % len(VARIANTS)]); k += 1
            if v["fam"] == 2 and not any(not full for _, full, _ in chosen):
                # the operator pairs exist to exercise precedence: always also with minimal parentheses
                chosen.append(("echo", False, k % 2 == 0))
            for ctx, full, compact in chosen:
                ci = CTXS.index(ctx)
                if not predictable(c, ci):
                    continue
                e = join(v["full"] if full else v["min"], compact)
                progs.append({"ch": v["ch"], "e": c["e"], "ctx": ctx, "full": full, "compact": compact,
                              "src": setup(c["env"]) + command(ctx, e), "case": c,
                              "nontrivial": len(v["ch"]) > 2})
    return progs


def run_programs(ck, progs, h):
    from concurrent.futures import ThreadPoolExecutor
    tail = "\necho \"rc=$?\"\n" + DUMP + "\n"
    snippets = []
    for p in progs:
        if p["ctx"] == "sub" and p["case"]["err"]:
            # bash: an arithmetic error inside ${a[..]} makes the shell exit (probed once per run,
            # see run()); a fork per program is not affordable here, so these programs are judged
            # against the spec only -- the same tree and environment meet bash in the other contexts
            snippets.append(":")
            snippets.append(":")
        else:
            snippets.append(PRE + p["src"])
            snippets.append(DUMP)
    with ThreadPoolExecutor(max_workers=2) as ex:
        fi = ex.submit(vlib.run_harness, h, "arithprog", [{"src": PRE + p["src"] + tail} for p in progs], shards=12)
        fb = ex.submit(vlib.run_shell_evals, snippets, per_process=4000, jobs=4)
        ires, bres = fi.result(), fb.result()
    out = []
    for k, (p, ir) in enumerate(zip(progs, ires)):
        ba, bd = bres[2 * k], bres[2 * k + 1]
        bash = [ba["out"], ba["rc"], bd["out"]]
        if p["ctx"] == "sub" and p["case"]["err"]:
            bash = None
        if ir.get("panic") or ir.get("parse_error") or ir.get("timeout") or ir.get("run_error"):
            impl = ["PANIC " + ir["panic"] if ir.get("panic") else "PARSE " + ir["parse_error"] if ir.get("parse_error")
                    else "ERROR " + str(ir.get("run_error")), -1, ""]
        else:
            o = ir["out"]
            j = o.rfind("rc=")
            try:
                head, rest = o[:j], o[j + 3:]
                rc, dump = rest.split("\n", 1)
                impl = [head, int(rc), dump]
            except ValueError:
                impl = [o, -2, ""]
        out.append((impl, bash))
    return out


def judge(ck, progs, results):
    st = ck.notes.setdefault("c20", {"programs": 0, "error_cases": 0, "by_ctx": {}})
    for p, (impl, bash) in zip(progs, results):
        c = p["case"]
        ci = CTXS.index(p["ctx"])
        spec = expected(c["out"][ci])
        ck.cov["evaluations"] += 1
        ck.cov["traces_validated_against_impl"] += 1
        st["programs"] += 1
        st["by_ctx"][p["ctx"]] = st["by_ctx"].get(p["ctx"], 0) + 1
        if c["err"]:
            st["error_cases"] += 1
        if p["nontrivial"]:
            ck.cov["distinct_nontrivial"] += 1
        rec = {"vector": {k: p[k] for k in ("ch", "e", "ctx", "full", "compact", "src", "case")},
               "program": PRE + p["src"], "spec": spec, "impl": impl, "bash": bash}
        if bash is None:
            st["not_run_in_bash"] = st.get("not_run_in_bash", 0) + 1
            bash = spec
        if impl == spec and bash == spec:
            if p["nontrivial"] and c["out"][ci]["env"] != c["env"]:
                ck.sample({"program": p["src"], "stdout": spec[0], "status": spec[1], "x|y|z|i": spec[2]}, cap=5)
            continue
        if bash != spec and impl == bash:
            ck.drift(rec); continue
        if impl[0].startswith("PANIC"):
            ck.violation("panic: " + impl[0][:120], rec); continue
        # named deviations: what mvdan/sh is known to compute instead (spec: Eval under a deviation
        # set, CtxOutcome); reported under the names that mattered, and only on an exact match
        if bash == spec:
            hit = None
            for d in c["devs"]:
                o = d[ci]
                if o["names"] and impl == expected(o):
                    hit = "+".join("Dev_" + n for n in sorted(o["names"])); break
            if hit:
                ck.violation(hit, rec); continue
        ck.violation("program %s" % json.dumps(p["src"]), dict(rec, spec_agrees_with_bash=(bash == spec)))


def run(ck):
    from concurrent.futures import ThreadPoolExecutor
    h = vlib.build_harness("bracesarith")
    T = ck.notes.setdefault("phase_s", {})
    nsim, depth = (5, 8) if ck.tier == "quick" else (200, 12)
    jobs = {"bfs": dict(cfg="ShArith.%s.cfg" % ck.tier, workers=16, timeout=1500),
            "sim": dict(cfg="ShArith.sim.cfg", simulate=nsim, depth=depth, seed=ck.seed, timeout=1500)}
    t0 = time.time()
    with ThreadPoolExecutor(max_workers=2) as ex:
        futs = {k: ex.submit(lambda a: vlib.run_tlc("ShArith", a.pop("cfg"), **a), dict(a)) for k, a in jobs.items()}
        runs = {k: f.result() for k, f in futs.items()}
    T["tlc_all_parallel"] = round(time.time() - t0, 1)
    vecs, seen = [], set()
    for k in ("bfs", "sim"):
        ck.add_tlc(runs[k])
        T["tlc_" + k] = round(runs[k].wall, 1)
        if not runs[k].ok:
            raise vlib.Inconclusive("ShArith (%s): a law of the contract fails in the model:\n" % k +
                                    (runs[k].violation or runs[k].raw_tail))
        n = 0
        for v in runs[k].vecs.get("VEC", []):
            key = json.dumps(v["ch"])
            if key not in seen:
                seen.add(key); vecs.append(v); n += 1
        ck.notes["trees_" + k] = n
    probe = vlib.run_shell_evals(["a=(1 2); echo \"${a[1/0]}\"; echo alive"], isolate=True)[0]
    if probe["out"] != "" or probe["rc"] == 0:
        raise vlib.Inconclusive("bash no longer exits on an arithmetic error inside ${a[..]}: %r" % (probe,))
    per_case = 1 if ck.tier == "quick" else 4
    progs = programs(vecs, per_case)
    ck.notes["cases"] = sum(len(v["cases"]) for v in vecs)
    ck.notes["out_of_scope_cases"] = sum(1 for v in vecs for c in v["cases"] if c["oos"])
    ck.cov["exhaustive"] = True
    ck.cov["rule"] = ("TLC BFS over the choice-sequence builder: family 1 = every operator over the 13-leaf menu and "
                      "the bare leaves, family 2 = every pair of nested operators over fixed leaves; + simulated "
                      "random trees; each tree x each environment of the 10-entry menu that matters (1 if the tree has "
                      "no variable) x %d renderings (context / parentheses / spacing) = one program run in interp "
                      "and bash; non-trivial = the tree has at least one operator" % per_case)
    ck.assumptions += ["bash 5.2.15 as reference", "values kept below 10^6 in magnitude, shift counts in 0..63 (InScope)",
                       "variables x y z from the 10-environment menu of ShArith!EnvMenu"]
    t0 = time.time()
    CH = 60000
    for o in range(0, len(progs), CH):
        part = progs[o:o + CH]
        judge(ck, part, run_programs(ck, part, h))
    T["programs"] = round(time.time() - t0, 1)


def replay(ck, rec):
    h = vlib.build_harness("bracesarith")
    v = rec["vector"]
    p = dict(v, nontrivial=True)
    judge(ck, [p], run_programs(ck, [p], h))
    for d in ck.drifts:
        print("SPEC-DRIFT property=%s: the code agrees with bash, the expected value of the vector does not" % ck.prop)
