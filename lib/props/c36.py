# C36 shfmt's list/diff/write/stdin modes agree.   Spec: ShfmtModes (Style S).
#
# TLC explores every command sequence (List, Diff, Write, WriteList, Stdin(f)) on every tree of up
# to |Files| files with statuses fmt/unf/err/non/abs, checks the agreement statements as invariants
# and emits every transition as an EDGE (from-tree, command, required observable result, to-tree).
# The driver materialises trees (concrete contents per status, per flag set), classifies every
# shell file with the real binary's stdin mode (fmt: output = input, unf: differs, err: fails), and
# replays walks over the EDGE graph with the real binary: each command's stdout/stderr/exit status
# and the tree afterwards are compared with the EDGE's `out` and `to`; the diff printed by -d is
# applied with patch(1) (-p0 and -p1) and must give the bytes stdin mode prints; the same walk is
# run with command-line flags and with the equivalent .editorconfig and must give identical bytes.
# Python holds no expectations of its own: which files are listed/diffed/written, the exit status
# and the bytes class (orig/new) all come from the EDGE records.
import json, os, shutil, subprocess, time
from concurrent.futures import ThreadPoolExecutor

import vlib
from props import shfmtlib as sl

LEVEL = "model_checking"

# ----------------------------------------------------------------------------------
# Concrete material

# Messy sources: unformatted under every flag set below; POSIX-compatible unless marked.
MESSY = [
    "if [ -f x ];then\n  echo   'one'\nfi\nfoo &&\n  bar\ncase $x in\na) echo a;;\nesac\necho hi >out\nf() { echo f; }\necho $(( $x + 1 ))\n",
    "while read l;do\n    echo \"$l\"   |  tr a b\ndone <in\nx=`date`\n[ \"$x\" = y ]||exit 1\n",
    "for i in 1 2 3\ndo\n\techo $(( $i + 1 ))\n\n\n\ndone\nfoo(){\n  cat <<EOF >log\n  body $i\nEOF\n}\n",
    "echo   a;echo b\n",
    "",                                  # the 0-byte file (shfmt prints a newline for it)
    "echo no-newline-at-end   ;",        # no trailing newline
    "#!/bin/sh\n# comment\nif true; then\necho x\nfi\n",
]
MESSY_BASH = [
    "declare -a arr=( 1   2 )\nif [[ $a == b ]];then\n echo ${arr[@]}\nfi\n",
    "function g {\n  local x=1; (( x++ ))\n}\ng &> /dev/null\n",
]
NATIVE_FMT = ["echo hi\n", "echo one\necho two\n", "foo && bar\n", "x=1\nexport x\n"]
BROKEN = ["if true; then\n  echo never closed\n", "echo \"unterminated\n", "echo ok\n}\n", "foo() {\n"]

# slot -> path when it is a shell file / when it is not a shell file
SHELL_PATH = {"a": "a.sh", "b": "sub/b.sh", "c": "c", "d": "sub/deep/d.bash"}
NON_PATH = {"a": "a.txt", "b": "sub/b.md", "c": "c", "d": "sub/deep/.d.bash"}
SHEBANG = "#!/bin/sh\n"

# (name, flags, editorconfig properties)
FLAGSETS = [
    ("default", [], None),
    ("i2", ["-i", "2"], {"indent_style": "space", "indent_size": "2"}),
    ("i4ci", ["-i", "4", "-ci"], {"indent_style": "space", "indent_size": "4", "switch_case_indent": "true"}),
    ("bn", ["-bn"], {"binary_next_line": "true"}),
    ("sr", ["-sr"], {"space_redirects": "true"}),
    ("fn", ["-fn"], {"function_next_line": "true"}),
    ("s", ["-s"], {"simplify": "true"}),
    ("mn", ["-mn"], {"minify": "true"}),
    ("posix", ["-ln", "posix"], {"shell_variant": "posix"}),
    ("p", ["-p"], {"shell_variant": "posix"}),
    ("kp", ["-kp"], {"keep_padding": "true"}),
    ("all", ["-ln", "bash", "-i", "3", "-bn", "-ci", "-sr", "-fn", "-s"],
     {"shell_variant": "bash", "indent_style": "space", "indent_size": "3", "binary_next_line": "true",
      "switch_case_indent": "true", "space_redirects": "true", "function_next_line": "true", "simplify": "true"}),
    ("mksh", ["-ln", "mksh", "-i", "8"], {"shell_variant": "mksh", "indent_style": "space", "indent_size": "8"}),
]
WALKS = [
    ["L", "D", "W", "L", "D"],
    ["D", "L", "WL", "L", "W"],
    ["S", "W", "S", "L", "W"],
    ["L", "WL", "WL", "D", "S"],
    ["W", "W", "L", "D", "S"],
    ["S", "D", "L", "W", "D"],
]


def editorconfig_text(props):
    return "root = true\n\n[*]\n" + "".join("%s = %s\n" % kv for kv in sorted(props.items()))


class Tree:
    """A status vector made concrete."""

    def __init__(self, vec, rng, bash_ok, rich=False, perfile=False):
        self.intended = dict(vec)
        nrich = 0
        self.files = {}           # path -> bytes (original)
        self.slot_path = {}
        for slot, stt in sorted(vec.items()):
            if stt == "abs":
                continue
            if stt == "non":
                p = NON_PATH[slot]
                body = rng.choice(MESSY[:4])
            else:
                p = SHELL_PATH[slot]
                pool = {"unf": MESSY + (MESSY_BASH if (bash_ok and p.endswith((".bash", ".sh"))) else []),
                        "fmt": NATIVE_FMT + ["@derived"] * 3, "err": BROKEN}[stt]
                body = rng.choice(pool)
                if rich and stt == "unf":
                    body = MESSY[nrich % 3]; nrich += 1     # the sources that exercise every printer knob
                if perfile and stt in ("fmt", "unf"):
                    # formatted with the DEFAULT options (a file no section applies to must be left alone,
                    # a file whose own section sets a knob must change) / messy
                    body = ("@dflt:" if stt == "fmt" else "") + MESSY[nrich % 3]; nrich += 1
                if body == "@derived":
                    body = "@derived:" + rng.choice(MESSY[:4])
                if slot == "c" and not body.startswith("@") and not body.startswith(SHEBANG):
                    body = SHEBANG + body          # extensionless: found through its shebang
            self.files[p] = body
            self.slot_path[slot] = p
        self.shell = {s: p for s, p in self.slot_path.items() if vec[s] != "non"}

    def write(self, root, ectext):
        os.makedirs(root)
        for p, b in self.files.items():
            ap = os.path.join(root, p)
            os.makedirs(os.path.dirname(ap), exist_ok=True)
            with open(ap, "wb") as f:
                f.write(b if isinstance(b, bytes) else b.encode())
        if ectext is not None:
            with open(os.path.join(root, ".editorconfig"), "w") as f:
                f.write(ectext)


def editorconfig_sections(sections):
    """{basename: props} -> .editorconfig with one section per file name (matches that file only)."""
    out = ["root = true\n"]
    for base, props in sorted(sections.items()):
        out.append("\n[%s]\n" % base + "".join("%s = %s\n" % kv for kv in sorted(props.items())))
    return "".join(out)


def read_tree(root):
    out = {}
    for base, dns, fns in os.walk(root):
        for n in fns:
            ap = os.path.join(base, n)
            rel = os.path.relpath(ap, root)
            if rel == ".editorconfig" or os.path.islink(ap):
                continue
            with open(ap, "rb") as f:
                out[rel] = f.read()
    return out


class Engine:
    def __init__(self, ck, shfmt, edges, work):
        self.ck, self.shfmt, self.edges, self.work = ck, shfmt, edges, work
        self.launches = 0
        import itertools
        self.ctr = itertools.count(1)

    def sh(self, args, cwd, stdin=b""):
        self.launches += 1
        return sl.run([self.shfmt] + args, cwd=cwd, stdin=stdin, env={"HOME": self.work, "TMPDIR": self.work})

    # -- one walk on one tree in one configuration mode
    def run_walk(self, tree, vec, fs, mode, walk, explicit, pvariant, record):
        """mode: 'flags' | 'ec'.  Returns the transcript [(cmd, stdout, files-after)] for flags-vs-ec comparison,
        after comparing every step with the EDGE graph (violations go to ck)."""
        name, flags, ec = fs
        flags = list(flags) if mode == "flags" else []
        ectext = None
        if mode == "ec" and ec is not None:
            ectext = editorconfig_text(ec)
        elif mode == "ecfiles":
            ectext = editorconfig_sections(ec)
        root = os.path.join(self.work, "t%d" % next(self.ctr))
        top = os.path.join(root, "tree")
        os.makedirs(root)
        # derived "fmt" contents: stdin-mode output of a messy source under this configuration
        t2 = Tree.__new__(Tree)
        t2.__dict__.update(tree.__dict__)
        t2.files = dict(tree.files)
        scratch_ec = os.path.join(root, "ecdir")
        os.makedirs(scratch_ec)
        if ectext is not None:
            with open(os.path.join(scratch_ec, ".editorconfig"), "w") as f:
                f.write(ectext)
        plain = os.path.join(root, "plain")
        os.makedirs(plain)
        for p, b in list(t2.files.items()):
            if isinstance(b, str) and b.startswith("@dflt:"):
                src = b[len("@dflt:"):]
                if p == "c":
                    src = SHEBANG + src
                rc, out, err = self.sh(["--filename", os.path.basename(p)], plain, src.encode())
                if rc != 0:
                    raise vlib.Inconclusive("content library: messy source does not parse: %r" % (err[:200],))
                t2.files[p] = out
            elif isinstance(b, str) and b.startswith("@derived:"):
                src = b[len("@derived:"):]
                if p == "c":
                    src = SHEBANG + src
                rc, out, err = self.sh(flags + ["--filename", p], scratch_ec, src.encode())
                if rc != 0:
                    raise vlib.Inconclusive("content library: messy source does not parse under %s: %r" % (name, err[:200]))
                t2.files[p] = out
            elif isinstance(b, str):
                t2.files[p] = b.encode()
        t2.write(top, ectext)
        orig = dict(t2.files)
        # classification by stdin mode (independent of walking, -l, -d, -w)
        st, ref = {}, {}
        for slot in sorted(vec):
            if vec[slot] in ("abs", "non"):
                st[slot] = vec[slot]; continue
            p = t2.slot_path[slot]
            rc, out, err = self.sh(flags + ["--filename", p], top, orig[p])
            if rc != 0:
                st[slot] = "err"
            elif out == orig[p]:
                st[slot] = "fmt"
            else:
                st[slot] = "unf"; ref[p] = out
        if any(st[s] != vec[s] for s in vec):
            record["reclassified"] += 1      # e.g. a messy source that this flag set leaves alone
        cont = {s: "orig" for s in vec}
        prefix = "" if pvariant == "p0" else "tree/"
        cwd = top if pvariant == "p0" else root
        paths = sorted(t2.shell.values())
        if explicit == "rev":
            paths = paths[::-1]
        args = [prefix + p for p in paths] if explicit else [prefix + "." if prefix == "" else "tree"]
        if explicit and not paths:
            args = [prefix + "." if prefix == "" else "tree"]
        slot_of = {prefix + p: s for s, p in t2.slot_path.items()}
        transcript = []
        ctx = {"flagset": name, "mode": mode, "explicit": explicit, "patch": pvariant, "tree": vec, "walk": walk}

        def viol(what, detail, step):
            key = "%s [%s]" % (what, {"flags": "flags", "ec": "editorconfig", "ecfiles": "editorconfig sections per file"}[mode])
            if (name == "kp" or name.startswith("perfile:kp@")) and "new" in step["from"]["cont"].values():
                # ShfmtModes!Dev_KeepPaddingNotIdempotent: documented best-effort option; only after a rewrite
                key = "Dev_KeepPaddingNotIdempotent"
            self.ck.violation(key, {"vector": {"vec": vec, "files": {p: (b if isinstance(b, str) else b.decode("latin-1")) for p, b in tree.files.items()},
                                               "flagset": name, "mode": mode, "walk": walk, "explicit": explicit, "patch": pvariant,
                                               "sections": ec if mode == "ecfiles" else None},
                                    "impl": detail, "spec": step, "context": ctx})

        def names(slots):
            return sorted(prefix + t2.slot_path[s] for s in slots)

        def errfiles(stderr):
            out = set()
            for line in stderr.decode("utf-8", "replace").splitlines():
                head = line.split(":", 1)[0]
                if head in slot_of:
                    out.add(head)
            return sorted(out)

        for cmd in walk:
            key0 = (json.dumps(st, sort_keys=True), json.dumps(cont, sort_keys=True))
            targets = [None]
            if cmd == "S":
                targets = [s for s in sorted(vec) if st[s] in ("fmt", "unf", "err")]
            for tgt in targets:
                e = self.edges.get(key0 + (cmd, tgt or ""))
                if e is None:
                    raise vlib.Inconclusive("no EDGE for %s from %s" % (cmd, key0))
                out, to = e["out"], e["to"]
                before = read_tree(top)
                self.ck.cov["evaluations"] += 1
                record["edges"].add(key0 + (cmd, tgt or ""))
                if cmd == "S":
                    p = t2.slot_path[tgt]
                    rc, so, se = self.sh(flags + ["--filename", p], top, before[p])
                    rc2, so2, se2 = self.sh(flags + [p], top)            # the same file given as an argument
                    want = None if out["bytes"] == "none" else orig[p] if out["bytes"] == "orig" else ref.get(p)
                    if rc != out["rc"] or (want is not None and so != want):
                        viol("stdin mode: output/status differs from spec", {"rc": rc, "stdout": so[:300].decode("latin-1"), "stderr": se[:200].decode("latin-1")}, e)
                    if rc2 != out["rc"] or (want is not None and so2 != want):
                        viol("formatting the file as an argument differs from stdin mode", {"rc": rc2, "stdout": so2[:300].decode("latin-1"), "stderr": se2[:200].decode("latin-1")}, e)
                    transcript.append((cmd, so, None))
                    continue
                opt = {"L": ["-l"], "D": ["-d"], "W": ["-w"], "WL": ["-l", "-w"]}[cmd]
                rc, so, se = self.sh(flags + opt + args, cwd)
                after = read_tree(top)
                if rc != out["rc"]:
                    viol("%s: exit status %d, spec %d" % (cmd, rc, out["rc"]), {"rc": rc, "stdout": so[:300].decode("latin-1"), "stderr": se[:300].decode("latin-1")}, e)
                if errfiles(se) != names(out["errs"]):
                    viol("%s: files with a reported parse error differ from spec" % cmd, {"stderr": se[:400].decode("latin-1")}, e)
                # the tree afterwards
                exp_after = {}
                for s in vec:
                    if vec[s] == "abs":
                        continue
                    p = t2.slot_path[s]
                    exp_after[p] = ref[p] if to["cont"][s] == "new" else orig[p]
                if after != exp_after:
                    diffp = sorted(p for p in set(after) | set(exp_after) if after.get(p) != exp_after.get(p))
                    viol("%s: tree afterwards differs from spec" % cmd, {"paths": diffp, "got": {p: after.get(p, b"<missing>")[:200].decode("latin-1") for p in diffp[:3]}}, e)
                if cmd in ("L", "WL"):
                    lines = so.decode("utf-8", "replace").splitlines()
                    if sorted(lines) != names(out["listed"]):
                        viol("%s: listed files differ from spec" % cmd, {"stdout": lines[:10]}, e)
                elif cmd == "W":
                    if so != b"":
                        viol("W: unexpected output", {"stdout": so[:300].decode("latin-1")}, e)
                elif cmd == "D":
                    chunks = split_diff(so)
                    if chunks is None or sorted(chunks) != names(out["diffs"]):
                        viol("D: files with a diff differ from spec", {"stdout": so[:400].decode("latin-1")}, e)
                    elif chunks:
                        got = self.apply_patch(so, cwd, top, pvariant)
                        exp_patched = {p: (ref[p] if (prefix + p) in chunks else b) for p, b in before.items()}
                        if got != exp_patched:
                            diffp = sorted(p for p in set(got) | set(exp_patched) if got.get(p) != exp_patched.get(p))
                            viol("D: applying the diff with patch -%s does not give the stdin-mode bytes" % pvariant,
                                 {"paths": diffp, "diff": so[:600].decode("latin-1"),
                                  "patched": {p: got.get(p, b"<missing>")[:200].decode("latin-1") for p in diffp[:2]}}, e)
                transcript.append((cmd, so.replace(b"tree/", b""), after))
                st, cont = to["st"], to["cont"]
        shutil.rmtree(root, ignore_errors=True)
        record["walks"] += 1
        if len(self.ck.cov["samples"]) < 5 and ref:
            self.ck.sample({"tree": vec, "files": {p: (b if isinstance(b, str) else b.decode("latin-1"))[:80] for p, b in tree.files.items()},
                            "flagset": name, "mode": mode, "walk": walk, "explicit_args": explicit, "patch": pvariant,
                            "sections": ec if mode == "ecfiles" else None,
                            "final_state": st})
        return transcript

    def apply_patch(self, diff, cwd, top, pvariant):
        """Apply shfmt -d's output to a copy of the tree with patch(1); returns the copy's files."""
        cp = os.path.join(self.work, "p%d" % next(self.ctr))
        shutil.copytree(top, os.path.join(cp, "tree"))
        self.launches += 1
        if pvariant == "p0":
            p = subprocess.run(["patch", "-p0", "-s", "--no-backup-if-mismatch"], cwd=os.path.join(cp, "tree"), input=diff, capture_output=True)
        else:
            p = subprocess.run(["patch", "-p1", "-s", "--no-backup-if-mismatch"], cwd=os.path.join(cp, "tree"), input=diff, capture_output=True)
        got = read_tree(os.path.join(cp, "tree"))
        if p.returncode != 0:
            got["<patch failed>"] = (p.stdout + p.stderr)[:300]
        shutil.rmtree(cp, ignore_errors=True)
        return got


def split_diff(out):
    """shfmt -d output -> {new-file name: chunk}; None if it does not look like a sequence of diffs."""
    if not out:
        return {}
    chunks = {}
    cur = None
    for line in out.split(b"\n"):
        if line.startswith(b"diff "):
            parts = line.decode("utf-8", "replace").split(" ")
            if len(parts) != 3 or parts[1] != parts[2] + ".orig":
                return None
            cur = parts[2]
            if cur in chunks:
                return None
            chunks[cur] = []
        if cur is None:
            return None
        chunks[cur].append(line)
    return chunks


# ----------------------------------------------------------------------------------

def load_edges(t):
    edges = {}
    for e in t.vecs.get("EDGE", []):
        k = (json.dumps(e["from"]["st"], sort_keys=True), json.dumps(e["from"]["cont"], sort_keys=True),
             e["cmd"], e["out"]["file"])
        edges[k] = e
    return edges


def pick_vectors(ck, edges, n):
    inits = {}
    for (st, cont, cmd, f), e in edges.items():
        c = json.loads(cont)
        if all(v == "orig" for v in c.values()):
            inits[st] = json.loads(st)
    vecs = [inits[k] for k in sorted(inits)]
    slots = sorted(vecs[0])
    must = []
    base = ["unf", "fmt", "err", "non", "abs"]
    for s0 in base:                               # uniform trees and "one of each"
        must.append({s: s0 for s in slots})
    for r in range(len(base)):
        must.append({s: base[(i + r) % len(base)] for i, s in enumerate(slots)})
    must.append({s: ("unf" if i % 2 == 0 else "err") for i, s in enumerate(slots)})
    must.append({s: ("unf" if i % 2 == 0 else "fmt") for i, s in enumerate(slots)})
    rest = [v for v in vecs if v not in must]
    ck.rng.shuffle(rest)
    out = must + rest
    return out[:n], len(vecs)


def run(ck):
    shfmt = sl.build_shfmt()
    if shutil.which("patch") is None:
        raise vlib.Inconclusive("patch(1) not installed")
    t = vlib.run_tlc("ShfmtModes", "ShfmtModes.%s.cfg" % ck.tier, workers=4, timeout=1200)
    ck.add_tlc(t)
    if not t.ok:
        raise vlib.Inconclusive("contract model inconsistent:\n" + (t.violation or t.raw_tail)[:2000])
    edges = load_edges(t)
    if not edges:
        raise vlib.Inconclusive("no EDGE emitted")
    if ck.tier == "thorough":
        t2 = vlib.run_tlc("ShfmtModes", "ShfmtModes.selftest.cfg", workers=2, timeout=300)
        if t2.ok:
            raise vlib.Inconclusive("self-test: NeverWrites holds (vacuous model)")
    work = vlib.scratch("c36-")
    record = {"edges": set(), "walks": 0, "reclassified": 0}
    try:
        eng = Engine(ck, shfmt, edges, work)
        ntrees = 26 if ck.tier == "quick" else 160
        vecs, ninit = pick_vectors(ck, edges, ntrees)
        budget = int(os.environ.get("C36_BUDGET", "0")) or (80 if ck.tier == "quick" else 800)
        t0 = time.time()
        jobs = []
        # per-file option sets: an .editorconfig whose sections match single files of a multi-file run.
        # What a whole-tree command does to each file must be what stdin mode (one file per process)
        # says about that file alone: options must not leak from one file to the next.
        slots3 = sorted(vecs[0])
        knobs = {f[0]: f[2] for f in FLAGSETS if f[2]}
        pf = []
        for kn in ("s", "mn"):
            for slt in slots3:
                pf.append((kn, slt))
        pf_rest = [(kn, slt) for kn in ("i2", "bn", "sr", "fn", "i4ci", "all") for slt in (slots3[0], slots3[-1])]
        for n, (kn, slt) in enumerate(pf):
            jobs.append((-2, n, {x: "fmt" for x in slots3}, ("perfile:%s@%s" % (kn, slt), [], {slt: knobs[kn]})))
        # then: every flag set on a tree whose unformatted files exercise every knob
        for j, fs in enumerate(FLAGSETS):
            jobs.append((-1, j, vecs[0] if j % 2 == 0 else vecs[5], fs))
        for n, (kn, slt) in enumerate(pf_rest):
            jobs.append((-2, n + len(pf), {x: ("fmt" if (n + k) % 3 else "unf") for k, x in enumerate(slots3)},
                         ("perfile:%s@%s" % (kn, slt), [], {slt: knobs[kn]})))
        for i, vec in enumerate(vecs):
            nfs = 2 if ck.tier == "quick" else 4
            fss = [FLAGSETS[(i * nfs + j + ck.rng.randrange(len(FLAGSETS))) % len(FLAGSETS)] for j in range(nfs)]
            if i % 5 == 0:
                fss[0] = FLAGSETS[0]
            for j, fs in enumerate(fss):
                jobs.append((i, j, vec, fs))
        seeds = [ck.rng.randrange(1 << 30) for _ in jobs]
        truncated = [0]

        def one(job_seed):
            (i, j, vec, fs), seed = job_seed
            if time.time() - t0 > budget:
                truncated[0] += 1
                return
            import random
            rng = random.Random(seed)
            if i == -2:
                tree = Tree(vec, rng, False, perfile=True)
                secs = {os.path.basename(tree.slot_path[x]): props for x, props in fs[2].items()}
                eng.run_walk(tree, vec, (fs[0], [], secs), "ecfiles", ["L", "D", "W", "L", "S"],
                             [False, True, "rev"][j % 3], "p0" if j % 2 == 0 else "p1", record)
                record["perfile"] = record.get("perfile", 0) + 1
                return
            bash_ok = fs[0] in ("default", "i2", "i4ci", "bn", "sr", "fn", "s", "mn", "kp", "all")
            tree = Tree(vec, rng, bash_ok, rich=(i == -1))
            walk = WALKS[(i + j) % len(WALKS)]
            explicit = (i + j) % 3 == 1
            pv = "p0" if (i + j) % 2 == 0 else "p1"
            ta = eng.run_walk(tree, vec, fs, "flags", walk, explicit, pv, record)
            if fs[2] is not None and j == 0 and i >= 0 and i % (4 if ck.tier == "quick" else 2) == 0:
                # the same tree with the knobs of this flag set applied to ONE of its files only
                sh = sorted(tree.shell.values())
                if len(sh) >= 2:
                    one = sh[rng.randrange(len(sh))]
                    eng.run_walk(tree, vec, ("perfile:%s@%s" % (fs[0], one), [], {os.path.basename(one): fs[2]}), "ecfiles",
                                 walk, [False, True, "rev"][i % 3], pv, record)
                    record["perfile"] = record.get("perfile", 0) + 1
            if fs[2] is not None:
                tb = eng.run_walk(tree, vec, fs, "ec", walk, explicit, pv, record)
                ck.cov["evaluations"] += 1
                if ta != tb:
                    k = next((n for n, (x, y) in enumerate(zip(ta, tb)) if x != y), -1)
                    ck.violation("flags and the equivalent EditorConfig give different bytes (flag set %s, command %s)" % (
                        fs[0], walk[k] if 0 <= k < len(walk) else "?"),
                        {"vector": {"vec": vec, "files": tree.files, "flagset": fs[0], "mode": "both", "walk": walk,
                                    "explicit": explicit, "patch": pv},
                         "impl": {"flags": repr(ta[k])[:600] if k >= 0 else "", "editorconfig": repr(tb[k])[:600] if k >= 0 else ""}})

        with ThreadPoolExecutor(max_workers=4) as ex:
            list(ex.map(one, zip(jobs, seeds)))
        ck.cov["exhaustive"] = False
        ck.cov["traces_validated_against_impl"] = record["walks"]
        ck.cov["distinct_nontrivial"] = len([k for k in record["edges"] if '"unf"' in k[0] or '"new"' in k[1] or '"err"' in k[0]])
        ck.notes["process_launches"] = eng.launches
        ck.notes["trees_in_model"] = ninit
        ck.notes["trees_run"] = len(vecs)
        ck.notes["walk_jobs_skipped_for_time"] = truncated[0]
        ck.notes["edges_in_model"] = len(edges)
        ck.notes["distinct_edges_replayed"] = len(record["edges"])
        ck.notes["reclassified_trees"] = record["reclassified"]
        ck.notes["per_file_section_walks"] = record.get("perfile", 0)
        ck.cov["rule"] = ("trees = status vectors (fmt/unf/err/non/abs per slot) from the model's initial states (fixed must-have "
                          "set + seeded sample), each with seeded concrete contents and flag sets; walk = 5 commands from a "
                          "template, Stdin expanded to every shell file, run once with flags and once with the equivalent "
                          ".editorconfig; evaluation = one executed command compared with its EDGE (+1 per flags-vs-editorconfig "
                          "transcript comparison); non-trivial & distinct = distinct EDGEs (tree state, command) replayed whose "
                          "tree has an unformatted, already rewritten or parse-error file")
        ck.assumptions += ["file status is classified by the binary's own stdin mode (Fmt is uninterpreted in the spec)",
                           "patch(1) (GNU) as the reference consumer of the diff", "NO_COLOR set, stdout not a terminal",
                           "walk order / line order of -l output is not compared (set comparison, duplicates rejected)"]
    finally:
        shutil.rmtree(work, ignore_errors=True)


def replay(ck, rec):
    shfmt = sl.build_shfmt()
    v = rec["vector"]
    t = vlib.run_tlc("ShfmtModes", "ShfmtModes.thorough.cfg" if len(v["vec"]) > 3 else "ShfmtModes.quick.cfg", workers=4, timeout=1200)
    edges = load_edges(t)
    work = vlib.scratch("c36r-")
    record = {"edges": set(), "walks": 0, "reclassified": 0}
    try:
        eng = Engine(ck, shfmt, edges, work)
        fs = next((f for f in FLAGSETS if f[0] == v["flagset"]), None)
        tree = Tree.__new__(Tree)
        tree.intended = v["vec"]
        tree.files = dict(v["files"])
        tree.slot_path = {s: (NON_PATH[s] if stt == "non" else SHELL_PATH[s]) for s, stt in v["vec"].items() if stt != "abs"}
        tree.shell = {s: p for s, p in tree.slot_path.items() if v["vec"][s] != "non"}
        modes = ["flags", "ec"] if v["mode"] == "both" else [v["mode"]]
        if v["mode"] == "ecfiles":
            fs = (v["flagset"], [], v["sections"])
        tr = [eng.run_walk(tree, v["vec"], fs, m, v["walk"], v["explicit"], v["patch"], record) for m in modes]
        if len(tr) == 2 and tr[0] != tr[1]:
            ck.violation("flags and the equivalent EditorConfig give different bytes (flag set %s)" % fs[0], {"vector": v})
    finally:
        shutil.rmtree(work, ignore_errors=True)
