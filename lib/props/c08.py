# C08 Streaming, interactive and reused parsers agree with Parse.
# Specs: ShSyntax (programs), ShInteractive + ShInteractiveTrace (callback protocol), ShParserReuse
# (histories of exit kinds for Parser and Printer).  Go engines: harness/cmd/synrest (seq, inter, reuse).
#
# (a) StmtsSeq: every generated program x layout x variant: the statements yielded by StmtsSeq (three
#     ways of delivering the bytes, with/without comments, the deprecated Stmts wrapper, and a consumer
#     that breaks after k statements, every k) are deep-equal to Parse's -- and their Abs projection
#     equals the spec tree wherever Parse's does.
# (b) InteractiveSeq: every program x layout (plus the same source without its final newline) x valid
#     variant is fed one line per Read; the recorded read/callback events are validated by TLC against
#     the ShInteractive protocol (ShInteractiveTrace) under the per-line annotation; also for a consumer
#     that returns false from its k-th callback (every k).  The contract model ShInteractive itself is
#     model-checked (laws + Progress) in the same run.
# (c) Reuse: TLC enumerates every history of exit kinds up to the bound (ShParserReuse, parser and
#     printer libraries); each is replayed on ONE object, followed by every probe (all non-option
#     kinds + generated programs), and compared with a fresh object built with the options TLC says
#     are in force.
import json, os, shutil, collections
from concurrent.futures import ThreadPoolExecutor
import vlib, syn

LEVEL = "model_checking"
KNOWN_DEVS = {"Dev_LastLineWithoutNewlineDropped", "Dev_DashHeredocLineNoCallback"}
SELFTESTS = {"selftest1": "drop_unterminated", "selftest2": "read_before_callback", "selftest3": "incomplete_when_closed",
             "selftest4": "partial_delivery"}


def cont_lines(r, L):
    """Lines of the rendering that end in a backslash-newline continuation: the newline comes from
    the layout's blank (`sp`), never from a separator.  Found by rendering once more with a marker."""
    if not ("\\" in L["sp"] and "\n" in L["sp"]):
        return []
    marked = syn.render(r, dict(L, sp=L["sp"].replace("\n", "\x01\n")))
    return [i + 1 for i, l in enumerate(marked.split("\n")) if l.endswith("\x01")]


def inter_key(f):
    # the stack of a recovered panic stays in the record; the key is the message and where the consumer stood
    return "%s|%s" % (f["kind"], f["detail"].split(" @ ")[0][:200])


_part_keys = collections.defaultdict(set)


def report(ck, part, key, rec):
    """ck.violation with a per-part cap on distinct keys, so that one noisy part cannot use up the
    replay files of the others."""
    ks = _part_keys[part]
    if key not in ks and key not in ck.known and len(ks) >= 12:
        key = "%s|(further distinct keys, see evidence)" % part
    ks.add(key)
    ck.violation(key, rec)


def seq_key(f):
    import re
    # neither the reader mode nor the break position identify the defect
    d = re.sub(r"^k=\d+: ", "", f["detail"])
    d = re.sub(r'>"[^"]*" became ".*$', "", d, flags=re.S)     # where it differs, not the differing text
    if "Redirect.Hdoc" in d:
        d = "Redirect.Hdoc"      # a here-document body, wherever the statement that carries it sits in the tree
    return "%s|%s" % (f["kind"], d[:200])


def hist_of(v):
    return v["hist"] if isinstance(v["hist"], list) else []


def compose(a, b, bg=False):
    """Two generated programs one after the other are a program too: token sequences and statement
    lists are concatenated (both renderings end in a separator), valid where both are valid.
    bg: the last statement of `a` runs in the background (as in ShSyntax!DStmts: `a <SP> & ...`,
    Background |-> TRUE) and `b` follows on the same line (`a & b`): a here-document of `a` then has
    its body after the line that also holds `b`."""
    ar, at = a["r"], a["t"]["Stmts"]
    if bg:
        ar = ar[:-1] + ["<SP>", "&", "<SP>"]
        at = at[:-1] + [dict(at[-1], Background=True)]
    return {"ch": a["ch"] + ["+&" if bg else "+"] + b["ch"], "r": ar + b["r"], "v": [l for l in a["v"] if l in b["v"]], "x": [],
            "t": {"k": "File", "Stmts": at + b["t"]["Stmts"]}, "parts": (None, None) if bg else (a["r"], b["r"])}


def with_compositions(vecs, nbfs):
    """The breadth-first bound of ShSyntax reaches a second top-level statement only late, and this
    property is about sequences of statements: every derivation is also paired with a partner
    (round robin over a few simple programs, alternating order), and a few triples are added.
    Only the breadth-first derivations (the first nbfs) are paired, not the simulated ones."""
    def first(pred):
        return next((v for v in vecs if v["v"] and pred(v)), None)
    partners = [p for p in (first(lambda v: v["ch"] == []), first(lambda v: "<HDOC>" in v["r"]),
                            first(lambda v: "if" in v["r"]), first(lambda v: "&" in v["r"] and "<BGSEP>" in v["r"]),
                            first(lambda v: v["ch"] == [1])) if p]
    out = list(vecs)
    if not partners:
        return out
    for i, v in enumerate(vecs[:nbfs]):
        if not v["v"]:
            continue
        p = partners[i % len(partners)]
        c = compose(v, p) if (i // len(partners)) % 2 == 0 else compose(p, v)
        if c["v"]:
            out.append(c)
        if i % 7 == 0:
            q = partners[(i + 1) % len(partners)]
            c3 = compose(compose(p, v), q)
            if c3["v"]:
                out.append(c3)
        if i % 5 == 0 and v["r"][-1] == "<SEP>" and "Background" not in v["t"]["Stmts"][-1]:
            cb = compose(v, partners[(i + 2) % len(partners)], bg=True)
            if cb["v"]:
                out.append(cb)
    return out


# ------------------------------------------------------------------------------------------------ TLC helpers
def run_models(ck, tier, seed):
    """The independent TLC runs of this check, a few at a time."""
    def gen():
        return syn.generate(ck, tier, seed, emit_sim=(tier == "thorough"))

    def model():
        return vlib.run_tlc("ShInteractive", "ShInteractive.%s.cfg" % tier, workers=2 if tier == "quick" else 6, timeout=900)

    def reuse(obj):
        cfg = "ShParserReuse.%s.cfg" % tier if obj == "parser" else "ShParserReuse.printer.%s.cfg" % tier
        return vlib.run_tlc("ShParserReuse", cfg, workers=2 if tier == "quick" else 6, timeout=900)

    with ThreadPoolExecutor(max_workers=4) as ex:
        fg, fm = ex.submit(gen), ex.submit(model)
        fp, fr = ex.submit(reuse, "parser"), ex.submit(reuse, "printer")
        vecs, m, rp, rr = fg.result(), fm.result(), fp.result(), fr.result()
    for name, t in (("ShInteractive", m), ("ShParserReuse/parser", rp), ("ShParserReuse/printer", rr)):
        ck.add_tlc(t)
        if not t.ok:
            raise vlib.Inconclusive("%s: contract model inconsistent:\n%s" % (name, t.violation or t.raw_tail))
    return vecs, m, rp, rr


def selftests(ck):
    """The laws of ShInteractive must notice each seeded protocol defect (model sensitivity)."""
    out = {}
    import re
    for cfg, defect in SELFTESTS.items():
        t = vlib.run_tlc("ShInteractive", "ShInteractive.%s.cfg" % cfg, workers=2, timeout=600)
        ck.add_tlc(t)
        m = re.search(r"Invariant (\w+) is violated", t.violation or "")
        if t.ok or not m:
            raise vlib.Inconclusive("ShInteractive.%s.cfg: the seeded defect %s was not caught by any law" % (cfg, defect))
        out[defect] = m.group(1)
    ck.notes["model_selftests"] = out


def validate_traces(ck, recs, nproc):
    """recs: list of trace records (with id). Returns {id: ("ACC"|"REJ"|"DEV", info)}."""
    work = vlib.scratch("c08-")
    try:
        chunks = [c for c in (recs[k::nproc] for k in range(nproc)) if c]
        paths = []
        for k, chunk in enumerate(chunks):
            p = os.path.join(work, "traces%d.ndjson" % k)
            with open(p, "w") as f:
                for t in chunk:
                    f.write(json.dumps(t) + "\n")
            paths.append(p)

        def one(p):
            return vlib.run_tlc("ShInteractiveTrace", "ShInteractiveTrace.cfg", workers=1, timeout=1500,
                                env_extra={"VERIF_TRACE": p}, tags=("ACC", "REJ", "DEV"))
        with ThreadPoolExecutor(max_workers=nproc) as ex:
            results = list(ex.map(one, paths))
        verdict = {}
        for r in results:
            ck.add_tlc(r)
            if not r.ok:
                raise vlib.Inconclusive("ShInteractiveTrace failed:\n" + (r.violation or r.raw_tail))
            for i in r.vecs.get("ACC", []):
                verdict[i] = ("ACC", None)
            for d in r.vecs.get("DEV", []):
                verdict[d["id"]] = ("DEV", d)
            for d in r.vecs.get("REJ", []):
                verdict[d["id"]] = ("REJ", d)
        return verdict
    finally:
        shutil.rmtree(work, ignore_errors=True)


def trace_record(i, src, t):
    return {"id": i, "open": t["open"], "done": t["done"], "dash": t["dash"], "lastnl": 1 if src.endswith("\n") else 0,
            "total": t["total"], "stop": t.get("stop", 0), "ev": t["ev"]}


# ------------------------------------------------------------------------------------------------ parts
COMMENT_BLOCKS = ["# note \\\n", "# note \\\n\n", "# note\n", "\t# a \\\n# b\\\n", "#\\\n", "# x \\\\\n",
                  # statements with an empty here-document body (quoted, escaped and plain delimiter), followed by a blank line
                  "true <<'EOF'\nEOF\n\n", "true <<\\EOF\nEOF\n", "true <<EOF\nEOF\n\n"]


def is_composed(v):
    return "+" in v["ch"] or "+&" in v["ch"]


def part_seq(ck, h, vecs, layouts):
    jobs = []
    for v in vecs:
        if ck.tier == "quick":
            # StmtsSeq and Parse share the statement loop: quick uses every third layout
            ls = layouts[::3]
        else:
            ls = layouts[:2] if is_composed(v) else layouts[::2]
        jobs.append({"srcs": [syn.render(v["r"], L) for L in ls], "langs": syn.LANGS, "valid": v["v"], "t": v["t"],
                     "full": ck.tier == "thorough" and is_composed(v)})
    if os.environ.get("VERIF_C08_CORRUPT"):
        # development self-test: a corrupted expected tree must be noticed
        for j in jobs[::40]:
            if j["t"]["Stmts"]:
                j["t"] = {"k": "File", "Stmts": j["t"]["Stmts"] + j["t"]["Stmts"][:1]}
    res = vlib.run_harness(h, "seq", jobs, shards=6, timeout=3000)
    seen = {}
    runs = spec = nsrc = 0
    for j, r in zip(jobs, res):
        nsrc += len(j["srcs"])
        if "panic" in r:
            ck.cov["evaluations"] += 1
            report(ck, "seq", "panic|seq|" + r["panic"][:120], {"vector": {"part": "seq", "job": j}, "impl": r})
            continue
        runs += r["runs"]; spec += r["spec_checked"]
        for f in (r["fails"] or []):
            key = seq_key(f)
            src = j["srcs"][f["item"]]
            rec = {"vector": {"part": "seq", "job": {"srcs": [src], "langs": [f["lang"]], "valid": j["valid"], "t": j["t"], "full": True}}, "impl": f}
            if key not in seen or len(src) < len(seen[key]["vector"]["job"]["srcs"][0]):
                seen[key] = rec
            report(ck, "seq", key, seen[key])
    ck.cov["evaluations"] += runs
    ck.notes["seq"] = {"sources": nsrc, "parser_runs": runs, "compared_with_spec_tree": spec}
    return nsrc


def part_inter(ck, h, vecs, layouts):
    jobs = []
    stop_layouts = ("lines", "bsnl")
    for v in vecs:
        if not v["v"]:
            continue
        items = []
        for L in layouts:
            if ck.tier == "thorough" and is_composed(v) and L["name"] not in stop_layouts:
                continue
            src = syn.render(v["r"], L)
            # a consumer stopping at every callback: on two layouts (thorough: of the composed programs)
            stops = (L["name"] == "lines" if ck.tier == "quick" else L["name"] in stop_layouts and is_composed(v))
            items.append({"src": src, "cont": cont_lines(v["r"], L), "stops": stops, "layout": L["name"]})
            if L["name"] in ("oneline", "lines") and src.rstrip("\n") != src:
                # the same program when the input ends without a final newline
                items.append({"src": src.rstrip("\n"), "cont": [], "stops": False, "layout": L["name"] + "-nonl"})
            if L["name"] == "lines" and (is_composed(v) or len(jobs) % 3 == 0):
                # comment lines typed between / before the statements: a comment runs to the end of its line, also
                # when its last byte is a backslash (no continuation), so every such line is a finished, empty line
                k = len(jobs) % len(COMMENT_BLOCKS)
                a, b = v.get("parts", (None, None))
                if a is not None:
                    csrc = syn.render(a, L) + COMMENT_BLOCKS[k] + syn.render(b, L)
                else:
                    csrc = COMMENT_BLOCKS[k] + src
                items.append({"src": csrc, "cont": [], "stops": False, "layout": "lines+commentlines"})
        jobs.append({"items": items, "langs": v["v"]})
    res = vlib.run_harness(h, "inter", jobs, shards=6, timeout=3000)
    uniq, members = {}, {}     # canonical trace -> id ; id -> [count, shortest (item, trace)]
    recs = []
    ntraces = skipped = unann = nsrc = 0
    seen = {}
    for j, r in zip(jobs, res):
        nsrc += len(j["items"])
        if "panic" in r:
            ck.cov["evaluations"] += 1
            report(ck, "inter", "panic|inter|" + r["panic"][:120], {"vector": {"part": "inter", "job": j}, "impl": r})
            continue
        for f in (r["fails"] or []):
            it = j["items"][f["item"]]
            if f["kind"] == "parse-error":
                skipped += 1     # the parser rejects the rendering in this variant: C11's business
                continue
            if f["kind"] == "delivered-count" and not it["src"].endswith("\n"):
                continue         # the trace of the same run carries this (Dev_LastLineWithoutNewlineDropped or a rejection)
            key = inter_key(f)
            rec = {"vector": {"part": "inter", "job": {"items": [it], "langs": [f["lang"]]}}, "impl": f}
            if key not in seen or len(it["src"]) < len(seen[key]["vector"]["job"]["items"][0]["src"]):
                seen[key] = rec
            ck.cov["evaluations"] += 1
            report(ck, "inter", key, seen[key])
        for t in (r["traces"] or []):
            it = j["items"][t["item"]]
            ntraces += 1
            if t.get("unannotated"):
                unann += 1
                ck.notes.setdefault("unannotated_samples", [])
                if len(ck.notes["unannotated_samples"]) < 3:
                    ck.notes["unannotated_samples"].append({"src": it["src"], "lang": t["lang"], "why": t["unannotated"]})
                continue
            rec = trace_record(0, it["src"], t)
            key = json.dumps([rec[k] for k in ("open", "done", "dash", "lastnl", "total", "stop", "ev")])      # (keep/no-keep runs with equal events share one record)
            i = uniq.get(key)
            if i is None:
                i = uniq[key] = len(recs)
                recs.append(dict(rec, id=i))
                members[i] = [0, (it, t)]
            m = members[i]
            m[0] += 1
            if len(it["src"]) < len(m[1][0]["src"]):
                m[1] = (it, t)
    if os.environ.get("VERIF_C08_CORRUPT"):
        # development self-test: a corrupted recorded trace / annotation must be rejected by TLC
        for rec in recs[::50]:
            cbs = [e for e in rec["ev"] if e[0] == 1]
            if cbs:
                cbs[-1][2] ^= 1          # flip the Incomplete flag of the last callback
    ck.notes["interactive"] = {"sources": nsrc, "traces": ntraces, "distinct_traces_sent_to_tlc": len(recs),
                               "variant_rejects_rendering": skipped, "unannotated": unann}
    if ntraces and unann > 0.05 * ntraces:
        raise vlib.Inconclusive("%d of %d interactive traces could not be annotated" % (unann, ntraces))
    return recs, members


def judge_inter(ck, recs, members, verdict):
    nontrivial = 0
    for rec in recs:
        v = verdict.get(rec["id"])
        if v is None:
            raise vlib.Inconclusive("trace %d was not judged by TLC" % rec["id"])
        n, (it, t) = members[rec["id"]]
        ck.cov["evaluations"] += n
        ck.cov["traces_validated_against_impl"] += n
        if any(e[0] == 1 and e[2] == 1 for e in rec["ev"]):
            nontrivial += n
        vec = {"part": "inter", "stop": rec["stop"], "keep_comments": not t.get("nocomments"),
               "job": {"items": [{"src": it["src"], "cont": it["cont"], "stops": rec["stop"] > 0}], "langs": [t["lang"]]}}
        if v[0] == "REJ":
            key = "interactive|" + v[1]["why"]
            r = {"vector": vec, "impl": {"events": rec["ev"]}, "spec": dict(v[1], annotation={k: rec[k] for k in ("open", "done", "lastnl", "total")}),
                 "instances": n}
            report(ck, "interactive", key, r)
            ck.viol_count += n - 1
        elif v[0] == "DEV":
            for d in v[1]["devs"]:
                if d not in KNOWN_DEVS:
                    raise vlib.Inconclusive("unknown deviation name %r" % d)
                r = {"vector": vec, "impl": {"events": rec["ev"]}, "spec": dict(v[1], annotation={k: rec[k] for k in ("open", "done", "dash", "lastnl", "total")}),
                     "instances": n}
                ck.violation(d, r)
                if d in ck.known_hit:
                    ck.known_hit[d] += n - 1
        elif len(rec["open"]) >= 3 and sum(rec["open"]) and len(ck.cov["samples"]) < 3:
            ck.sample({"src": it["src"], "lang": t["lang"], "open": rec["open"], "done": rec["done"], "events": rec["ev"], "verdict": "accepted by ShInteractiveTrace"})
    ck.notes["interactive"]["verdicts"] = dict(collections.Counter(v[0] for v in verdict.values()))
    return nontrivial


def gen_probes(ck, vecs, layouts, n, obj):
    """Generated programs appended to the probe set (seeded sample; Parse / File print)."""
    pool = [v for v in vecs if "bash" in v["v"] and any(v["ch"])]
    ck.rng.shuffle(pool)
    out = []
    for i, v in enumerate(pool[:n]):
        L = layouts[i % len(layouts)]
        out.append({"name": "gen:%s:%s" % ("".join("%s." % c for c in v["ch"]), L["name"]),
                    "e": "Parse" if obj == "parser" else "File", "src": syn.render(v["r"], L), "k": 0})
    return out


def part_reuse(ck, h, t, vecs, layouts):
    st = t.vecs["STAT"][0]
    obj = st["obj"]
    probes = [k for k in st["lib"] if k["e"] != "opt"] + gen_probes(ck, vecs, layouts, 30, obj)
    hists = t.vecs["VEC"]
    work = vlib.scratch("c08-")
    try:
        lp = os.path.join(work, "lib.json")
        json.dump({"obj": obj, "lib": st["lib"], "probes": probes, "opts0": st["opts0"]}, open(lp, "w"))
        jobs = [{"hist": hist_of(v), "opts": v["opts"]} for v in hists]
        res = vlib.run_harness(h, "reuse", jobs, shards=6, timeout=3000, env_extra={"VERIF_REUSE": lp})
    finally:
        shutil.rmtree(work, ignore_errors=True)
    evals = tainted = 0
    suspects = sum(1 for v in hists if v["suspect"])
    nontrivial = 0
    lib = {k["name"]: k for k in st["lib"] + probes}
    seen = {}
    for v, j, r in zip(hists, jobs, res):
        if "panic" in r or "harness_error" in r:
            raise vlib.Inconclusive("reuse engine failed on %s: %s" % (j, json.dumps(r)[:500]))
        evals += r["evals"]
        tainted += 1 if r["tainted"] else 0
        if any(lib[n]["e"] != "opt" for n in j["hist"]):
            nontrivial += 1
        for kn, msg in (r.get("panics") or {}).items():
            key = "panic|%s %s|%s" % (obj, lib[kn]["e"], msg.split(" @ ")[0][:200])
            ck.violation(key, {"vector": {"part": "reuse", "obj": obj, "hist": [], "opts": st["opts0"], "probe": lib[kn], "lib": st["lib"]},
                               "impl": {"panic": msg}})
        for f in (r["fails"] or []):
            pn = "generated program" if f["probe"].startswith("gen:") else f["probe"]
            key = "reuse|%s|%s|%s|%s" % (obj, ",".join(f["minhist"]), pn, f["detail"][:120] if pn == f["probe"] else "")
            rec = {"vector": {"part": "reuse", "obj": obj, "hist": j["hist"], "opts": j["opts"], "probe": lib[f["probe"]], "lib": st["lib"]},
                   "impl": f, "spec": {"suspect_components": v["suspect"]}}
            if key not in seen or len(j["hist"]) < len(seen[key]["vector"]["hist"]):
                seen[key] = rec
            report(ck, "reuse-" + obj, key, seen[key])
    ck.cov["evaluations"] += evals
    ck.notes["reuse_" + obj] = {"histories": len(hists), "probes": len(probes), "comparisons": evals,
                                "histories_tlc_marks_suspect": suspects, "histories_after_a_panic": tainted}
    return nontrivial


# ------------------------------------------------------------------------------------------------ run
def run(ck):
    import time
    t0 = time.time(); walls = {}
    def lap(name):
        nonlocal t0
        walls[name] = round(time.time() - t0, 1); t0 = time.time()
    h = vlib.build_harness("synrest"); lap("build")
    vecs, m, rp, rr = run_models(ck, ck.tier, ck.seed); lap("tlc_models")
    if ck.tier == "thorough":
        selftests(ck); lap("tlc_selftests")
    layouts = syn.load_layouts()
    nder = len(vecs)
    vecs = with_compositions(vecs, ck.notes.get("derivations_bfs", len(vecs)))
    ck.notes["program_counts"] = {"derivations": nder, "with_compositions": len(vecs)}
    nseq = part_seq(ck, h, vecs, layouts); lap("seq")
    recs, members = part_inter(ck, h, vecs, layouts); lap("interactive_record")
    with ThreadPoolExecutor(max_workers=1) as ex:     # TLC validates the traces while the reuse histories are replayed
        fut = ex.submit(validate_traces, ck, recs, 1 if ck.tier == "quick" else 4)
        nt_reuse = part_reuse(ck, h, rp, vecs, layouts) + part_reuse(ck, h, rr, vecs, layouts); lap("reuse")
        verdict = fut.result()
    nt_inter = judge_inter(ck, recs, members, verdict); lap("interactive_validate_rest")
    ck.notes["wall_parts_s"] = walls
    ck.cov["distinct_nontrivial"] = nt_inter + nt_reuse
    ck.cov["exhaustive"] = True
    ck.cov["rule"] = ("every ShSyntax derivation (TLC BFS%s) x 6 layouts: StmtsSeq in 5 variants x 2 comment modes x 3 readers x every "
                      "break position; InteractiveSeq line-fed in every valid variant (+ no-final-newline form, + consumer stopping at every "
                      "callback), each event trace validated by TLC (ShInteractiveTrace); every reuse history of ShParserReuse up to MaxHist "
                      "(parser and printer) x every probe.  non-trivial = interactive runs whose trace has an Incomplete callback + reuse "
                      "histories with at least one non-option use" % (" + simulation" if ck.tier == "thorough" else ""))
    ck.assumptions += ["line annotation (open/done per line) from Parse + IsIncomplete on line prefixes (the C10 oracle) and statement end offsets",
                       "one line per Read through an in-process reader stands for the blocking pipe",
                       "reuse: exit kinds and probes of the library in spec/ShParserReuse.tla (+ seeded generated programs as probes)"]


def replay(ck, rec):
    h = vlib.build_harness("synrest")
    v = rec["vector"]
    key = rec["key"]
    if v["part"] == "seq":
        r = vlib.run_harness(h, "seq", [v["job"]])[0]
        for f in (r.get("fails") or []):
            if seq_key(f) == key:
                ck.violation(key, {"vector": v, "impl": f}); return
        if "panic" in r:
            ck.violation(key, {"vector": v, "impl": r})
    elif v["part"] == "inter":
        j = v["job"]
        r = vlib.run_harness(h, "inter", [j])[0]
        if "panic" in r:
            ck.violation(key, {"vector": v, "impl": r}); return
        for f in (r.get("fails") or []):
            if inter_key(f) == key:
                ck.violation(key, {"vector": v, "impl": f}); return
        recs = []
        for t in (r.get("traces") or []):
            if not t.get("unannotated") and t.get("stop", 0) == v.get("stop", 0):
                recs.append(trace_record(len(recs), j["items"][0]["src"], t))
        for i, vd in validate_traces(ck, recs, 1).items():
            if vd[0] == "REJ" and "interactive|" + vd[1]["why"] == key:
                ck.violation(key, {"vector": v, "spec": vd[1]})
            if vd[0] == "DEV" and key in vd[1]["devs"]:
                ck.violation(key, {"vector": v, "spec": vd[1]})
    elif v["part"] == "reuse":
        work = vlib.scratch("c08-")
        try:
            lp = os.path.join(work, "lib.json")
            json.dump({"obj": v["obj"], "lib": v["lib"], "probes": [v["probe"]], "opts0": {}}, open(lp, "w"))
            r = vlib.run_harness(h, "reuse", [{"hist": v["hist"], "opts": v["opts"]}], env_extra={"VERIF_REUSE": lp})[0]
        finally:
            shutil.rmtree(work, ignore_errors=True)
        if r.get("fails") or (key.startswith("panic|") and r.get("panics")):
            ck.violation(key, {"vector": v, "impl": r})
