#!/usr/bin/env python3
# Development tool (never run by a check): record reviewed violation keys as known findings.
# usage: record_keys.py <PROP> <keysfile>   -- labels come from RULES below (first matching regex).
import sys, json, re, os
ROOT = os.path.dirname(os.path.dirname(os.path.dirname(os.path.abspath(__file__))))
RULES = {
 "C01": [
  (r"KeepPadding\+Minify\|`(&&|\|\|)` must be followed", "F-let-minify: Minify keeps no separator after the last expression of a `let` clause, so a following && || | & or redirection is glued to it and re-parsed as arithmetic"),
  (r"Minify\|(not a valid arithmetic operator: `0`|`w` must be followed by `;` near \"0)", "F-minify-minus: Minify prints the arithmetic `i - -1` as `i--1`, which re-parses as a decrement"),
  (r"Minify\|(`(if|until|while|if <w>)`|statements must be separated|a command can only contain words and redirects; encountered `\(`)", "F-empty-block: an empty `{ }` (valid in mksh and zsh) is printed as `{}` under Minify, which re-parses as a command word and derails whatever follows"),
  (r"SingleLine\|statements must be separated", "F-singleline-empty-block: SingleLine prints no `;` between a statement ending in an empty `{ }` block (possibly negated or with redirections) and the next statement"),
  (r"SingleLine\|unclosed here-document", "F-singleline-heredoc: SingleLine joins the lines that follow a here-document operator inside a case item (`;;&`, the next pattern) onto the operator's line but leaves the body after them, so the body is no longer where the parser looks for it"),
  (r"Indent=0\|(statements must be separated by &, ; or a newline near \"EOF|unclosed here-document `-EOF`)", "F-let-redirect: a here-document written before a `let` clause (zsh) is printed after its expressions, `let i++ j=2 <<-EOF`, where `<<` re-parses as a shift operator"),
  (r"sub-reparse-error\|Indent=0\|Command: reached `\)` without matching `\(\(`", "F-paren-space: a function whose body is a subshell starting with an arithmetic command, fn() ( ((..)) ), is printed on its own as `fn() ((((`, which re-parses as arithmetic"),
  (r"FlagsArithm|sub-tree-changed\|Indent=0(\+FunctionNextLine)?\|Word$", "F-zsh-subflags-newline: for a zsh subscript flag group containing a newline, $x[(r<newline>)1], the printer inserts a backslash-newline before the subscript argument, which changes the argument when the node is printed on its own"),
  (r"Redirect\.Hdoc", "F-bsnl-heredoc: with backslash-newline continuations between a here-document operator and a following && / | operator, the continuation lines are emitted into the here-document body"),
  (r"Block became CallExpr", "F-empty-block: an empty `{ }` (valid in mksh and zsh) is printed as `{}` under Minify, which re-parses as a command word"),
  (r"ParamExp\.(Exp|Repl)>", "F-bsnl-param: for a for-loop word list continued with backslash-newline, the continuation/indentation is emitted inside the ${...} operand of an item"),
  (r"Block became CallExpr|Minify\|`(done|elif|fi|for|select|w)`|Minify\|not a valid arithmetic operator|Minify\|reached EOF without matching `\{`",
   "F-empty-block: an empty `{ }` (valid in mksh and zsh) is printed as `{}` under Minify, and by FunctionNextLine when printed on its own, which re-parses as a command word and derails whatever follows"),
  (r"Minify\|`&` must be followed by an expression|BinaryCmd became LetClause", "F-let-minify: Minify keeps no separator after the last expression of a `let` clause, so a following && || | & or redirection is glued to it and re-parsed as arithmetic"),
  (r"`for w` must be followed by|invalid for loop variable name", "F-for-comment: a comment between `for NAME` and `do` (no `in` list) is printed on the `for` line, swallowing `do`, under SingleLine and when the loop is printed on its own"),
  (r"invalid @ expansion operator|ParamExp\.(Exp|Repl)>.*became \" w\"", "F-bsnl-param: for a for-loop word list continued with backslash-newline, the continuation/indentation is emitted inside the ${...} operand of an item"),
  (r"Redirect\.Hdoc>", "F-bsnl-heredoc: with backslash-newline continuations between a here-document operator and a following && / | operator, the continuation lines are emitted into the here-document body"),
 ],
 "C02": [
  (r"Minify\|", "F-minify-do: Minify prints `;do` or a newline before `do` depending on source lines of a multi-line for-loop item, so its output is not a fixed point"),
  (r"BinaryNextLine\|", "F-bsnl-heredoc: BinaryNextLine with backslash-newline continuations around a here-document operator changes on every pass"),
  (r"Indent=0\|\"w", "F-bsnl-param: backslash-newline continuation inside ${...} of a for-loop item grows indentation on every pass"),
  (r"Indent=0\|", "F-paren-space: a function or subshell body starting with a nested subshell / arithmetic command on its own line is printed with a trailing blank and `))` vs `) )` that the next pass changes"),
 ],
 "C05": [
  (r"lost on a line starting \"(own line after )?do time", "F-time-comment: a trailing (or own-line) comment after the header of a for/select loop under `time` (before do/{) is dropped, also when the `time` clause is the first command of a loop body"),
  (r"moved on a line starting \"\+heredoc\"", "F-heredoc-comment: a trailing comment after a here-document operator followed by `&` is moved into a substitution inside the here-document body under SingleLine"),
  (r"moved on a line starting \"case \$w\"", "F-heredoc-comment: a trailing comment after `esac <<EOF && cmd <<-EOF &` (two here-documents on the line of `esac`) is moved into the case item"),
  (r"lost on a line starting \"time ", "F-time-comment: a trailing comment on the line of a for/select header under `time` (before do/{) is dropped"),
  (r"lost on a line starting \"\+heredoc", "F-heredoc-comment: a trailing comment after a here-document operator is dropped when the statement is the operand of `time`, or the redirection follows `esac`, `]]`, `}` ..."),
  (r"moved on a line starting \"(own line after )?(case \\\"w|for w) \+subst\"", "F-for-subst-comment: a comment after a for-loop word list whose item ends with a multi-line substitution is moved into that substitution"),
 ],
}
prop, keysfile = sys.argv[1], sys.argv[2]
out = os.path.join(ROOT, "known_findings.d", prop + ".jsonl")
have = set(json.loads(l)["key"] for l in open(out)) if os.path.exists(out) else set()
n = 0
with open(out, "a") as fo:
    for key in open(keysfile):
        key = key.rstrip("\n")
        if not key or key in have:
            continue
        for rx, what in RULES.get(prop, []):
            if re.search(rx, key):
                fo.write(json.dumps({"property": prop, "status": "known", "key": key, "what": what}) + "\n"); n += 1
                break
        else:
            print("UNLABELLED", key[:200])
print(prop, "recorded", n)
