#!/usr/bin/env python3
# Development tool: split a unified diff into one patch per hunk (out.N.diff) so that independent
# fixes proposed in one file can be committed separately.
import sys, re
src, prefix = sys.argv[1], sys.argv[2]
lines = open(src).read().split("\n")
files, cur, hunk = [], None, None
n = 0
header = []
out = []
for l in lines:
    if l.startswith("diff --git"):
        header = [l]; hunk = None
    elif l.startswith(("index ", "--- ", "+++ ")) and hunk is None:
        header.append(l)
    elif l.startswith("@@"):
        hunk = [l]; out.append((list(header), hunk))
    elif hunk is not None:
        hunk.append(l)
for i, (h, hk) in enumerate(out, 1):
    while hk and hk[-1] == "":
        hk.pop()
    open("%s.%d.diff" % (prefix, i), "w").write("\n".join(h + hk) + "\n")
    print(i, h[0].split()[-1], hk[0][:60])
