#!/usr/bin/env python3
# Development tool (never run by a check): turn reviewed violation keys of the syntax family into
# known-finding records.  Each key is one specific input (kind | minimal option row | variants | source);
# the label names the root cause that was established by hand (see DESIGN.md "Known findings").
import sys, json, re, os
ROOT = os.path.dirname(os.path.dirname(os.path.dirname(os.path.abspath(__file__))))

RULES = {
 "C01": [
  (lambda kind, row, src: "Minify" in row and re.search(r"\blet\b", src) and kind in ("reparse-error", "tree-changed", "sub-reparse-error", "sub-tree-changed"),
   "printer/Minify: no separator is kept after the last expression of a `let` clause, so a following && || | & or redirection is glued to it and re-parsed as arithmetic"),
  (lambda kind, row, src: "\\\n" in src and re.search(r"\bfor\b|\bselect\b", src) and kind in ("reparse-error", "tree-changed"),
   "printer: for a for/select word list continued with backslash-newline, the continuation and indentation are emitted inside the ${...} operand of an item, changing the pattern/default word"),
 ],
 "C02": [
  (lambda kind, row, src: "Minify" in row and re.search(r"\bfor\b|\bselect\b", src),
   "printer/Minify: `for ... ;do` versus a newline before `do` depends on the source line of a multi-line word-list item, so the minified output is not a fixed point"),
  (lambda kind, row, src: "\\\n" in src and re.search(r"\bfor\b|\bselect\b", src),
   "printer: backslash-newline continuation inside ${...} of a for-loop item grows indentation on every pass"),
 ],
 "C05": [
  (lambda kind, row, src: re.search(r"time (for|select)", src),
   "comments: a trailing comment between the header of a for/select loop under `time` and its `do`/`{` is dropped"),
  (lambda kind, row, src: re.search(r"for i in (\"pre )?(\$|<)\(cmd foo # c1\n\)", src),
   "comments: a comment after a for-loop word list whose item ends with a multi-line substitution is moved into that substitution, ahead of the comment inside it"),
 ],
}

def main():
    prop = sys.argv[1]
    out = os.path.join(ROOT, "known_findings.d", prop + ".jsonl")
    have = set()
    if os.path.exists(out):
        for l in open(out):
            if l.strip():
                have.add(json.loads(l)["key"])
    new, unl = [], []
    for f in sys.argv[2:]:
        for key in open(f):
            key = key.rstrip("\n")
            if not key or key in have:
                continue
            kind, row, langs, srcj = key.split("|", 3)
            src = json.loads(srcj)
            for pred, what in RULES.get(prop, []):
                if pred(kind, row, src):
                    new.append({"property": prop, "status": "known", "key": key, "what": what}); have.add(key)
                    break
            else:
                unl.append(key)
    with open(out, "a") as fo:
        for r in new:
            fo.write(json.dumps(r) + "\n")
    print("%s: recorded %d, unlabelled %d" % (prop, len(new), len(unl)))
    for k in unl[:40]:
        print("  UNLABELLED", k[:300])

main()
