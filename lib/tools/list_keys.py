#!/usr/bin/env python3
# Development tool: run a property's check in-process and print every unlisted violation key.
import sys, os, json, importlib
sys.path.insert(0, os.path.join(os.path.dirname(os.path.abspath(__file__)), ".."))
import vlib
prop, tier = sys.argv[1], sys.argv[2] if len(sys.argv) > 2 else "quick"
mod = importlib.import_module("props." + prop.lower())
ck = vlib.Check(prop, tier, int(os.environ.get("VERIF_SEED", "1")), mod.LEVEL)
mod.run(ck)
for k in sorted(ck.all_keys):
    print(k)
print("# known hit:", dict(ck.known_hit), file=sys.stderr)
print("# notes:", json.dumps(ck.notes.get("conformance", {})), file=sys.stderr)
