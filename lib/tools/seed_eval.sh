#!/bin/sh
# Development tool: confirm a seeded change (demo fails with it, passes without) and run checks on it.
# usage: seed_eval.sh <ID-N> <check ids...>     (worktree /tmp/seed-<ID-N>, deliverables /tmp/seed-out/<ID-N>)
set -u
S=$1; shift
WT=/tmp/seed-$S; OUT=/tmp/seed-out/$S
export GOFLAGS=-mod=mod GOPROXY=off
cd $WT || exit 2
# bring the worktree to /repo's current HEAD, keeping the seeded change
HEADNOW=$(git -C /repo rev-parse HEAD)
if [ "$(git rev-parse HEAD)" != "$HEADNOW" ]; then
  git diff > /tmp/seed-out/$S.rebase.diff
  git apply -R /tmp/seed-out/$S.rebase.diff && git checkout -q --detach $HEADNOW && git apply /tmp/seed-out/$S.rebase.diff || { echo "REBASE FAILED"; exit 2; }
  echo "== worktree moved to $HEADNOW"
fi
RUN=$(cat $OUT/demo/run.txt | head -1)
echo "== demo WITH change: $RUN"
( eval "$RUN" ) > /tmp/seed-out/$S.with.log 2>&1; W=$?
git diff > /tmp/seed-out/$S.cur.diff; git apply -R /tmp/seed-out/$S.cur.diff
echo "== demo WITHOUT change"
( eval "$RUN" ) > /tmp/seed-out/$S.without.log 2>&1; WO=$?
git apply /tmp/seed-out/$S.cur.diff
echo "with=$W without=$WO"
cd /verif
for c in "$@"; do
  echo "== check $c quick on seeded tree"
  VERIF_REPO=$WT ./check $c --tier quick > /tmp/seed-out/$S.$c.log 2>&1; R=$?
  echo "check $c exit=$R"; grep VIOLATION /tmp/seed-out/$S.$c.log | head -3 | cut -c1-250
done
