#!/usr/bin/env python3
# Development tool: store a confirmed seeded change under /verif/seeded/<ID-N>/ and remove its worktree.
# usage: seed_store.py <ID-N> "<caught by: ...>" "<note>"
import sys, os, json, shutil, subprocess, re
S, caught, note = sys.argv[1], sys.argv[2], sys.argv[3] if len(sys.argv) > 3 else ""
out, wt = "/tmp/seed-out/" + S, "/tmp/seed-" + S
dst = "/verif/seeded/" + S
os.makedirs(dst, exist_ok=True)
shutil.copy(out + "/patch.diff", dst + "/patch.diff")
if os.path.isdir(dst + "/demo"):
    shutil.rmtree(dst + "/demo")
shutil.copytree(out + "/demo", dst + "/demo")
meta = json.load(open(out + "/meta.json"))
def tail(p, n=3):
    try:
        return open(p).read().strip().split("\n")[-n:]
    except OSError:
        return []
ran = {"demo_with_change": tail("/tmp/seed-out/%s.with.log" % S, 2), "demo_without_change": tail("/tmp/seed-out/%s.without.log" % S, 2), "checks": {}}
for f in os.listdir("/tmp/seed-out"):
    m = re.match(re.escape(S) + r"\.(C\d+)\.log$", f)
    if m:
        txt = open("/tmp/seed-out/" + f).read()
        ran["checks"][m.group(1)] = {"violations": [l[:300] for l in txt.split("\n") if l.startswith("VIOLATION")][:3],
                                      "exit": 1 if "VIOLATION" in txt else (0 if "\nOK property" in "\n" + txt else 2)}
meta.update({"breaks_property": S.split("-")[0], "confirmed_by_coordinator": ran, "caught_by": caught, "note": note,
             "how_to_apply": "git -C /repo apply seeded/%s/patch.diff ; run the check ; git -C /repo checkout -- ." % S})
json.dump(meta, open(dst + "/meta.json", "w"), indent=1)
subprocess.run(["git", "-C", "/repo", "worktree", "remove", "--force", wt])
print("stored", dst)
