#!/usr/bin/env python3
# Development tool: run a property's check in-process and write one full record per unlisted violation key.
# usage: sample_keys.py <PROP> <tier> <outfile>
import sys, os, json, importlib
sys.path.insert(0, os.path.join(os.path.dirname(os.path.abspath(__file__)), ".."))
import vlib
prop, tier, out = sys.argv[1], sys.argv[2], sys.argv[3]
mod = importlib.import_module("props." + prop.lower())
ck = vlib.Check(prop, tier, int(os.environ.get("VERIF_SEED", "1")), mod.LEVEL)
recs = {}
def violation(key, record, _ck=ck):
    _ck.viol_count += 1
    if key in _ck.known:
        _ck.known_hit[key] = _ck.known_hit.get(key, 0) + 1
        return
    _ck.all_keys.add(key)
    recs.setdefault(key, record)
ck.violation = violation
mod.run(ck)
with open(out, "w") as f:
    for k in sorted(recs):
        f.write(json.dumps({"key": k, "rec": recs[k]}, default=str) + "\n")
print(prop, len(recs), "keys")
