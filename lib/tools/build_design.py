#!/usr/bin/env python3
# Regenerates the "as built" appendix of DESIGN.md from design_notes/*.md.
import os, glob, re
ROOT = os.path.dirname(os.path.dirname(os.path.dirname(os.path.abspath(__file__))))
p = os.path.join(ROOT, "DESIGN.md")
s = open(p).read()
B, E = "<!-- AS-BUILT NOTES BEGIN -->", "<!-- AS-BUILT NOTES END -->"
notes = []
for f in sorted(glob.glob(os.path.join(ROOT, "design_notes", "C*.md"))):
    body = open(f).read().strip()
    body = re.sub(r"^# ", "### ", body, flags=re.M)
    notes.append(body)
import json
def load_findings():
    rows = []
    paths = [os.path.join(ROOT, "known_findings.jsonl")] + sorted(glob.glob(os.path.join(ROOT, "known_findings.d", "*.jsonl")))
    for fp in paths:
        for l in open(fp):
            l = l.strip()
            if l:
                rows.append(json.loads(l))
    return rows
rows = load_findings()
fixed, known = {}, {}
for r in rows:
    what = r.get("what", "")
    if r["status"] == "fixed":
        fixed.setdefault((r["property"], r.get("commit", "?"), re.sub(r"^fixed: property=\S+ \S+ ", "", what)), 0)
        fixed[(r["property"], r.get("commit", "?"), re.sub(r"^fixed: property=\S+ \S+ ", "", what))] += 1
    else:
        known.setdefault((r["property"], what), []).append(r["key"])
sec14 = ["## 14. Genuine defects: fixed and known findings (generated from known_findings*.jsonl)", "",
         "Every entry below was first reported by a check on the then-unchanged tree and reproduced against the real code "
         "(replay file with the failing input). *Fixed* entries are one `fix:` commit each in /repo and suppress nothing; "
         "*known* entries are listed with narrow keys (input, call site, or a named deviation operator of the spec) and are "
         "printed as `KNOWN-FINDING:` lines by the checks.", "", "### Fixed (`fix:` commits in /repo)", "",
         "| property | commit | what failed |", "|---|---|---|"]
seen = set()
for (prop, commit, what), n in sorted(fixed.items()):
    if (commit, what) in seen:
        continue
    seen.add((commit, what))
    sec14.append("| %s | %s | %s |" % (prop, commit, what.replace("|", "\\|")))
sec14 += ["", "### Known findings (not repaired: the repair is not small, changes documented behaviour, or needs a design decision)", "",
          "| property | keys | what fails |", "|---|---|---|"]
for (prop, what), keys in sorted(known.items()):
    sec14.append("| %s | %d | %s |" % (prop, len(keys), what.replace("|", "\\|")[:400]))
sec15 = ["## 15. Seeded changes and which checks catch them (generated from seeded/*/meta.json)", "",
         "Each change was written by a fresh sub-agent that saw only the property text and its own scratch worktree; it compiles, "
         "keeps the repository's tests passing, and comes with a demonstration that fails with the change and passes without it "
         "(both re-run by the coordinator). `MISSED at first` records what had to be strengthened.", "",
         "| seed | change | needs | caught by | note |", "|---|---|---|---|---|"]
for d in sorted(glob.glob(os.path.join(ROOT, "seeded", "*", "meta.json"))):
    m = json.load(open(d))
    sec15.append("| %s | %s | %s | %s | %s |" % (os.path.basename(os.path.dirname(d)), str(m.get("summary", ""))[:260].replace("|", "/").replace("\n", " "),
                 str(m.get("needs", ""))[:200].replace("|", "/").replace("\n", " "), str(m.get("caught_by", "")).replace("|", "/"), str(m.get("note", "")).replace("|", "/")))
# section 12: status table from the registry
sys_path = os.path.join(ROOT, "lib")
import sys
sys.path.insert(0, sys_path)
import registry
props = [json.loads(l) for l in open(os.path.join(ROOT, "properties.jsonl"))]
sec12 = open(os.path.join(ROOT, "design_notes", "_status_preamble.md")).read().rstrip("\n").split("\n") if os.path.exists(os.path.join(ROOT, "design_notes", "_status_preamble.md")) else ["## 12. Status of the build"]
sec12 += ["", "| property | claimed | level | specification (engine) | deciding method |", "|---|---|---|---|---|"]
for pr in props:
    c = registry.CHECKS.get(pr["id"])
    if c:
        sec12.append("| %s %s | yes | %s | %s | %s |" % (pr["id"], pr["title"], c["level"], c["engine"], c["technique"].replace("|", "/")[:300]))
    else:
        sec12.append("| %s %s | no | | | %s |" % (pr["id"], pr["title"], registry.NOT_APPLICABLE.get(pr["id"], registry.NOT_YET)))
sec13 = open(os.path.join(ROOT, "design_notes", "_corrections.md")).read().rstrip("\n").split("\n") if os.path.exists(os.path.join(ROOT, "design_notes", "_corrections.md")) else ["## 13. Corrections"]
G1, G2 = "<!-- GENERATED SECTIONS BEGIN -->", "<!-- GENERATED SECTIONS END -->"
gen = G1 + "\n\n" + "\n".join(sec12) + "\n\n" + "\n".join(sec13) + "\n\n" + "\n".join(sec14) + "\n\n" + "\n".join(sec15) + "\n\n" + G2
if G1 in s:
    s = s[:s.index(G1)] + gen + s[s.index(G2) + len(G2):]
else:
    marker = "<!-- AS-BUILT NOTES BEGIN -->"
    s = s[:s.index(marker)] + gen + "\n\n" + s[s.index(marker):] if marker in s else s.rstrip("\n") + "\n\n" + gen + "\n"
block = B + "\n\n## Appendix F. As-built notes per property (generated from design_notes/)\n\n" + "\n\n".join(notes) + "\n\n" + E
if B in s:
    s = s[:s.index(B)] + block + s[s.index(E) + len(E):]
else:
    s = s.rstrip("\n") + "\n\n" + block + "\n"
open(p, "w").write(s)
print("DESIGN.md: %d notes" % len(notes))
