#!/usr/bin/env python3
# Regenerates the "as built" appendix of DESIGN.md from design_notes/*.md.
import os, glob, re
ROOT = os.path.dirname(os.path.dirname(os.path.dirname(os.path.abspath(__file__))))
p = os.path.join(ROOT, "DESIGN.md")
s = open(p).read()
B, E = "<!-- AS-BUILT NOTES BEGIN -->", "<!-- AS-BUILT NOTES END -->"
notes = []
for f in sorted(glob.glob(os.path.join(ROOT, "design_notes", "*.md"))):
    body = open(f).read().strip()
    body = re.sub(r"^# ", "### ", body, flags=re.M)
    notes.append(body)
block = B + "\n\n## Appendix F. As-built notes per property (generated from design_notes/)\n\n" + "\n\n".join(notes) + "\n\n" + E
if B in s:
    s = s[:s.index(B)] + block + s[s.index(E) + len(E):]
else:
    s = s.rstrip("\n") + "\n\n" + block + "\n"
open(p, "w").write(s)
print("DESIGN.md: %d notes" % len(notes))
