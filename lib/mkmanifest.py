#!/usr/bin/env python3
import json, os, subprocess, sys
sys.path.insert(0, os.path.dirname(os.path.abspath(__file__)))
import registry
ROOT = os.path.dirname(os.path.dirname(os.path.abspath(__file__)))
props = [json.loads(l)["id"] for l in open(os.path.join(ROOT, "properties.jsonl"))]
baseline = json.load(open("/root/.vp/BASELINE.json"))["cmd"] if os.path.exists("/root/.vp/BASELINE.json") else ""
hooks_file = os.path.join(ROOT, "hooks_commits.txt")
import glob
commits = []
for hf in [hooks_file] + sorted(glob.glob(os.path.join(ROOT, "hooks_commits.d", "*.txt"))):
    if os.path.exists(hf):
        commits += [l.split()[0] for l in open(hf) if l.strip() and not l.startswith("#")]
checks = []
engines = {}
for pid in props:
    c = registry.CHECKS.get(pid)
    if not c:
        continue
    checks.append({
        "property_id": pid,
        "quick_cmd": "./check %s --tier quick" % pid,
        "thorough_cmd": "./check %s --tier thorough" % pid,
        "evidence_file": "evidence/%s.json" % pid,
        "replay_cmd_template": "./check %s --replay {path}" % pid,
        "engine": c["engine"],
        "level_claimed": {"category": c["level"], "text": c["text"], "design_ref": "DESIGN.md section " + c["design"]},
        "level_note": c["note"],
        "technique": c["technique"],
    })
    engines.setdefault(c["engine"], []).append(pid)
na = [{"property_id": p, "reason": registry.NOT_APPLICABLE.get(p, registry.NOT_YET) if hasattr(registry, "NOT_APPLICABLE") else registry.NOT_YET}
      for p in props if p not in registry.CHECKS]
man = {
    "version": 1,
    "setup_cmd": "./setup.sh",
    "hooks": {
        "guard": "verif",
        "enable": "go build -tags verif (the Go harness in /verif/harness is built with this tag against /repo via a replace directive)",
        "baseline_off_cmd": baseline,
        "source_commits": commits,
        "add_only": True,
    },
    "engines": [{"name": e, "path": "spec/%s.tla" % e, "serves_properties": ps,
                 "kind_free_text": "TLA+ specification checked with TLC; bound to the code by lib/props/*.py + harness/*.go"}
                for e, ps in sorted(engines.items())],
    "checks": checks,
    "notes": "All checks: ./check <ID> --tier quick|thorough (honours VERIF_SEED, VERIF_TIER). Exit 0 held / 1 VIOLATION / 2 INCONCLUSIVE (machinery failure, never a verdict). Known findings: known_findings.jsonl.",
    "not_applicable": na,
}
json.dump(man, open(os.path.join(ROOT, "MANIFEST.json"), "w"), indent=1)
print("MANIFEST.json: %d checks, %d not claimed" % (len(checks), len(na)))
