package hlib

import (
	"bytes"
	"context"
	"encoding/json"
	"fmt"
	"os"
	"strings"
	"time"

	"mvdan.cc/sh/v3/expand"
	"mvdan.cc/sh/v3/interp"
	"mvdan.cc/sh/v3/syntax"
)

// Generic engine: run a script with the real interpreter in a fresh directory.
// Vector: {"src": "...", "lang": "bash"|"posix", "stdin": "...", "timeout_ms": n, "params": [..],
//
//	"files": {"name": "content"}}
//
// Result: {"out": Latin1(stdout), "err": ..., "status": n, "parse_error": "...", "run_error": "...", "timeout": bool}
func init() { Register("interp", interpEngine) }

type InterpVec struct {
	Src       string            `json:"src"`
	Lang      string            `json:"lang"`
	Stdin     string            `json:"stdin"`
	TimeoutMs int               `json:"timeout_ms"`
	Params    []string          `json:"params"`
	Files     map[string]string `json:"files"`
	Env       []string          `json:"env"`
}

func Latin1(b []byte) string {
	rs := make([]rune, len(b))
	for i, c := range b {
		rs[i] = rune(c)
	}
	return string(rs)
}

func Unlatin1(s string) []byte {
	b := make([]byte, 0, len(s))
	for _, r := range s {
		b = append(b, byte(r))
	}
	return b
}

func LangOf(s string) syntax.LangVariant {
	switch s {
	case "posix":
		return syntax.LangPOSIX
	case "mksh":
		return syntax.LangMirBSDKorn
	case "bats":
		return syntax.LangBats
	case "zsh":
		return syntax.LangZsh
	}
	return syntax.LangBash
}

var scratchSeq int

func FreshDir() string {
	base := os.Getenv("VERIF_SCRATCH")
	if base == "" {
		base = os.TempDir()
	}
	scratchSeq++
	d, err := os.MkdirTemp(base, fmt.Sprintf("run%d-", scratchSeq))
	if err != nil {
		panic(err)
	}
	return d
}

type RunResult struct {
	Out        string `json:"out"`
	Err        string `json:"err"`
	Status     int    `json:"status"`
	ParseError string `json:"parse_error,omitempty"`
	RunError   string `json:"run_error,omitempty"`
	Timeout    bool   `json:"timeout,omitempty"`
	Panic      string `json:"panic,omitempty"`
	Stack      string `json:"stack,omitempty"`
}

func RunScript(v InterpVec) (res RunResult) {
	src := Unlatin1(v.Src)
	p := syntax.NewParser(syntax.Variant(LangOf(v.Lang)))
	file, err := p.Parse(bytes.NewReader(src), "")
	if err != nil {
		res.ParseError = err.Error()
		res.Status = -1
		return res
	}
	dir := FreshDir()
	defer os.RemoveAll(dir)
	for name, content := range v.Files {
		os.WriteFile(dir+"/"+name, Unlatin1(content), 0o644)
	}
	var out, errb bytes.Buffer
	env := append([]string{"PATH=/usr/local/sbin:/usr/local/bin:/usr/sbin:/usr/bin:/sbin:/bin",
		"HOME=" + dir, "TMPDIR=" + dir, "LC_ALL=C.UTF-8", "PWD=" + dir}, v.Env...)
	r, err := interp.New(interp.StdIO(strings.NewReader(string(Unlatin1(v.Stdin))), &out, &errb),
		interp.Dir(dir), interp.Env(expand.ListEnviron(env...)), interp.Params(append([]string{"--"}, v.Params...)...))
	if err != nil {
		res.RunError = "New: " + err.Error()
		res.Status = -2
		return res
	}
	to := time.Duration(v.TimeoutMs) * time.Millisecond
	if to == 0 {
		to = 5 * time.Second
	}
	ctx, cancel := context.WithTimeout(context.Background(), to)
	defer cancel()
	done := make(chan struct{})
	var runErr error
	var pan any
	var stack string
	go func() {
		defer close(done)
		defer func() {
			if rec := recover(); rec != nil {
				pan = rec
				stack = TrimStack(string(debugStack()))
			}
		}()
		runErr = r.Run(ctx, file)
	}()
	select {
	case <-done:
	case <-time.After(to + 5*time.Second):
		res.Timeout = true
		res.RunError = "Run did not return after cancellation"
		res.Status = -3
		res.Out, res.Err = Latin1(out.Bytes()), Latin1(errb.Bytes())
		return res
	}
	if pan != nil {
		res.Panic = fmt.Sprint(pan)
		res.Stack = stack
		res.Status = -4
	} else if runErr != nil {
		if st, ok := interp.IsExitStatus(runErr); ok {
			res.Status = int(st)
		} else {
			res.RunError = runErr.Error()
			res.Status = -2
			if ctx.Err() != nil {
				res.Timeout = true
			}
		}
	}
	res.Out, res.Err = Latin1(out.Bytes()), Latin1(errb.Bytes())
	if len(res.Err) > 600 {
		res.Err = res.Err[:600]
	}
	return res
}

func interpEngine(raw json.RawMessage, _ []string) (any, error) {
	var v InterpVec
	if err := json.Unmarshal(raw, &v); err != nil {
		return nil, err
	}
	return RunScript(v), nil
}
