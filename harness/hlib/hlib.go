// Command harness drives the real mvdan/sh packages (built from /repo's working
// tree, -tags verif) on vectors produced by TLC. Protocol: `harness <engine> [args] <in.ndjson>`
// reads one JSON vector per line and writes one JSON result per line to stdout.
package hlib

import (
	"bufio"
	"encoding/json"
	"fmt"
	"os"
	"runtime/debug"
	"strings"
)

type EngineFn func(vec json.RawMessage, args []string) (any, error)

var engines = map[string]EngineFn{}

// Register adds an engine.
func Register(name string, fn EngineFn) { engines[name] = fn }

// text converts the spec's text representation (array of 1-char strings, symbolic
// names, or ints meaning raw bytes) into a Go string.
func Text(a []any) string {
	var sb strings.Builder
	for _, c := range a {
		switch c := c.(type) {
		case string:
			if s, ok := symbolic[c]; ok && len(c) > 1 {
				sb.WriteString(s)
			} else {
				sb.WriteString(c)
			}
		case float64:
			sb.WriteByte(byte(c))
		}
	}
	return sb.String()
}

var symbolic = map[string]string{
	"NUL": "\x00", "eacute": "é", "euro": "€", "NL": "\n", "TAB": "\t", "CR": "\r",
	"DEL": "\x7f", "BEL": "\a", "ESC": "\x1b",
}

// untext is the inverse of text for results: one element per byte for non-ASCII safety.
func Untext(s string) []any {
	out := make([]any, 0, len(s))
	for _, r := range s {
		out = append(out, string(r))
	}
	return out
}

func Texts(a []any) []string {
	out := make([]string, len(a))
	for i, e := range a {
		out[i] = Text(e.([]any))
	}
	return out
}

// Main is the entry point shared by all harness binaries.
func Main() {
	if len(os.Args) < 3 {
		fmt.Fprintln(os.Stderr, "usage: harness <engine> [args] <in.ndjson>")
		os.Exit(2)
	}
	name := os.Args[1]
	fn, ok := engines[name]
	if !ok {
		fmt.Fprintf(os.Stderr, "unknown engine %q\n", name)
		os.Exit(2)
	}
	args := os.Args[2 : len(os.Args)-1]
	in, err := os.Open(os.Args[len(os.Args)-1])
	if err != nil {
		fmt.Fprintln(os.Stderr, err)
		os.Exit(2)
	}
	defer in.Close()
	sc := bufio.NewScanner(in)
	sc.Buffer(make([]byte, 1<<20), 1<<28)
	w := bufio.NewWriterSize(os.Stdout, 1<<20)
	defer w.Flush()
	enc := json.NewEncoder(w)
	for sc.Scan() {
		line := sc.Bytes()
		if len(line) == 0 {
			continue
		}
		res := safeCall(fn, append(json.RawMessage(nil), line...), args)
		if err := enc.Encode(res); err != nil {
			fmt.Fprintln(os.Stderr, err)
			os.Exit(2)
		}
	}
}

// safeCall runs one vector; a panic in the code under test is a result, not a crash.
func safeCall(fn EngineFn, vec json.RawMessage, args []string) (res any) {
	defer func() {
		if r := recover(); r != nil {
			res = map[string]any{"panic": fmt.Sprint(r), "stack": TrimStack(string(debug.Stack()))}
		}
	}()
	out, err := fn(vec, args)
	if err != nil {
		return map[string]any{"harness_error": err.Error()}
	}
	return out
}

func TrimStack(s string) string {
	lines := strings.Split(s, "\n")
	var keep []string
	for _, l := range lines {
		if strings.Contains(l, "mvdan.cc/sh") || strings.Contains(l, "/repo/") {
			keep = append(keep, strings.TrimSpace(l))
		}
		if len(keep) >= 12 {
			break
		}
	}
	return strings.Join(keep, " | ")
}
