package main

import (
	"bytes"
	"context"
	"encoding/json"
	"fmt"
	"os"
	"time"

	"mvdan.cc/sh/v3/expand"
	"mvdan.cc/sh/v3/interp"
	"mvdan.cc/sh/v3/syntax"
	"verif/harness/hlib"
)

// Engine "pexp": run one small expansion program {"src": latin1 text} in a fresh Runner of the
// real interpreter.  Same result shape as the generic "interp" engine, but all programs of one
// harness process share one empty working directory (the programs never touch the file system),
// which saves two system calls per vector.
func init() { hlib.Register("pexp", pexpEngine) }

var pexpDir string

type pexpVec struct {
	Src string `json:"src"`
}

func pexpEngine(raw json.RawMessage, _ []string) (any, error) {
	var v pexpVec
	if err := json.Unmarshal(raw, &v); err != nil {
		return nil, err
	}
	if pexpDir == "" {
		pexpDir = hlib.FreshDir()
	} else if ents, err := os.ReadDir(pexpDir); err != nil || len(ents) > 0 {
		return nil, fmt.Errorf("shared directory not empty: %v %d", err, len(ents))
	}
	var res hlib.RunResult
	p := syntax.NewParser(syntax.Variant(syntax.LangBash))
	file, err := p.Parse(bytes.NewReader(hlib.Unlatin1(v.Src)), "")
	if err != nil {
		res.ParseError = err.Error()
		res.Status = -1
		return res, nil
	}
	var out, errb bytes.Buffer
	env := []string{"PATH=/usr/bin:/bin", "HOME=" + pexpDir, "TMPDIR=" + pexpDir, "LC_ALL=C.UTF-8", "PWD=" + pexpDir}
	r, err := interp.New(interp.StdIO(nil, &out, &errb),
		interp.Dir(pexpDir), interp.Env(expand.ListEnviron(env...)), interp.Params("--"))
	if err != nil {
		return nil, err
	}
	ctx, cancel := context.WithTimeout(context.Background(), 5*time.Second)
	defer cancel()
	runErr := r.Run(ctx, file) // a panic is caught per vector by hlib
	if runErr != nil {
		if st, ok := interp.IsExitStatus(runErr); ok {
			res.Status = int(st)
		} else {
			res.RunError = runErr.Error()
			res.Status = -2
			res.Timeout = ctx.Err() != nil
		}
	}
	res.Out, res.Err = hlib.Latin1(out.Bytes()), hlib.Latin1(errb.Bytes())
	if len(res.Err) > 300 {
		res.Err = res.Err[:300]
	}
	return res, nil
}
