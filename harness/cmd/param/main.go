// Command param: harness binary for the C21 (parameter expansion) and C19 (pathname expansion)
// engines; the generic "interp" engine comes from hlib.
package main

import "verif/harness/hlib"

func main() { hlib.Main() }
