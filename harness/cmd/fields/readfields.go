package main

import (
	"encoding/json"

	"verif/harness/hlib"

	"mvdan.cc/sh/v3/expand"
)

// C23, direct binding: expand.ReadFields(cfg, line, n, raw).
// Vector: {"line": latin1, "ifs": {"set","val"}, "n": int (-1 = read -a), "raw": bool}
// Result: {"fields": [latin1...]}
func init() { hlib.Register("readfields", readFieldsEngine) }

func readFieldsEngine(raw json.RawMessage, _ []string) (any, error) {
	var v struct {
		Line string `json:"line"`
		Ifs  optVal `json:"ifs"`
		N    int    `json:"n"`
		Raw  bool   `json:"raw"`
	}
	if err := json.Unmarshal(raw, &v); err != nil {
		return nil, err
	}
	env := &vecEnv{vars: map[string]string{}, params: []string{}}
	if v.Ifs.Set {
		env.vars["IFS"] = b(v.Ifs.Val)
	}
	fields := expand.ReadFields(&expand.Config{Env: env}, b(v.Line), v.N, v.Raw)
	out := make([]string, len(fields))
	for i, f := range fields {
		out[i] = hlib.Latin1([]byte(f))
	}
	return map[string]any{"fields": out}, nil
}
