// Command fields: harness binary for the C22 (field splitting), C23 (read) and C25 (shell.Expand /
// shell.Fields) engines plus the generic "interp" engine from hlib.
package main

import "verif/harness/hlib"

func main() { hlib.Main() }
