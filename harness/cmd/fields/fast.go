package main

import (
	"bytes"
	"context"
	"encoding/json"
	"fmt"
	"os"
	"runtime/debug"
	"time"

	"verif/harness/hlib"

	"mvdan.cc/sh/v3/expand"
	"mvdan.cc/sh/v3/interp"
	"mvdan.cc/sh/v3/syntax"
)

// Engine "shfast": run a script in the real interpreter like the generic "interp" engine, but
// without a scratch directory, a stdin pipe and a watchdog goroutine (the scripts of this family
// touch no files and read only here-documents), which makes it ~10x cheaper per vector.
// Vector: {"src": latin1}  Result: {"out", "err", "status", "parse_error", "run_error", "panic"}
func init() { hlib.Register("shfast", shfastEngine) }

var fastEnv = expand.ListEnviron("PATH=/usr/local/sbin:/usr/local/bin:/usr/sbin:/usr/bin:/sbin:/bin",
	"HOME=/nonexistent", "LC_ALL=C.UTF-8")

// procDir is one scratch directory per harness process (scripts of C23 write their input to a
// file "f" in it before reading it back).
var procDir string

func runFast(src []byte) (res hlib.RunResult) {
	if procDir == "" {
		base := os.Getenv("VERIF_SCRATCH")
		if base == "" {
			base = os.TempDir()
		}
		d, err := os.MkdirTemp(base, "fast-")
		if err != nil {
			panic(err)
		}
		procDir = d
	}
	p := syntax.NewParser(syntax.Variant(syntax.LangBash))
	file, err := p.Parse(bytes.NewReader(src), "")
	if err != nil {
		res.ParseError = err.Error()
		res.Status = -1
		return res
	}
	var out, errb bytes.Buffer
	r, err := interp.New(interp.StdIO(nil, &out, &errb), interp.Env(fastEnv), interp.Params("--"), interp.Dir(procDir))
	if err != nil {
		res.RunError = "New: " + err.Error()
		res.Status = -2
		return res
	}
	ctx, cancel := context.WithTimeout(context.Background(), 10*time.Second)
	defer cancel()
	func() {
		defer func() {
			if rec := recover(); rec != nil {
				res.Panic = fmt.Sprint(rec)
				res.Stack = hlib.TrimStack(string(debug.Stack()))
				res.Status = -4
			}
		}()
		if err := r.Run(ctx, file); err != nil {
			if st, ok := interp.IsExitStatus(err); ok {
				res.Status = int(st)
			} else {
				res.RunError = err.Error()
				res.Status = -2
			}
		}
	}()
	res.Out, res.Err = hlib.Latin1(out.Bytes()), hlib.Latin1(errb.Bytes())
	if len(res.Err) > 600 {
		res.Err = res.Err[:600]
	}
	return res
}

func shfastEngine(raw json.RawMessage, _ []string) (any, error) {
	var v struct {
		Src string `json:"src"`
	}
	if err := json.Unmarshal(raw, &v); err != nil {
		return nil, err
	}
	return runFast(hlib.Unlatin1(v.Src)), nil
}
