package main

import (
	"encoding/json"

	"verif/harness/hlib"

	"mvdan.cc/sh/v3/shell"
)

// C25: shell.Expand / shell.Fields with an env function (empty = unset).
// Vector: {"s": latin1, "env": {"name": latin1 value}, "mode": "expand"|"fields"}
// Result: {"out": latin1} or {"fields": [latin1...]}, plus "err" when the call failed.
func init() { hlib.Register("shellapi", shellAPIEngine) }

func shellAPIEngine(raw json.RawMessage, _ []string) (any, error) {
	var v struct {
		S    string            `json:"s"`
		Env  map[string]string `json:"env"`
		Mode string            `json:"mode"`
	}
	if err := json.Unmarshal(raw, &v); err != nil {
		return nil, err
	}
	env := func(name string) string { return b(v.Env[name]) }
	res := map[string]any{}
	if v.Mode == "expand" {
		out, err := shell.Expand(b(v.S), env)
		if err != nil {
			res["err"] = err.Error()
		}
		res["out"] = hlib.Latin1([]byte(out))
		return res, nil
	}
	fields, err := shell.Fields(b(v.S), env)
	if err != nil {
		res["err"] = err.Error()
	}
	out := make([]string, len(fields))
	for i, f := range fields {
		out[i] = hlib.Latin1([]byte(f))
	}
	res["fields"] = out
	return res, nil
}
