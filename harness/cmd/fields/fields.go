package main

import (
	"bytes"
	"context"
	"encoding/json"
	"fmt"
	"io"
	"strconv"

	"verif/harness/hlib"

	"mvdan.cc/sh/v3/expand"
	"mvdan.cc/sh/v3/interp"
	"mvdan.cc/sh/v3/syntax"
)

// C22, binding (b): expand.Fields called directly with a Config.
// Vector: {"src": latin1 word source, "ifs": {"set","val"}, "v": {...}, "w": {...}, "params": [latin1...]}
// Result: {"fields": [latin1...], "err": "..."}
func init() { hlib.Register("fields", fieldsEngine) }

type optVal struct {
	Set bool   `json:"set"`
	Val string `json:"val"`
}

type fieldsVec struct {
	Src    string   `json:"src"`
	Ifs    optVal   `json:"ifs"`
	V      optVal   `json:"v"`
	W      optVal   `json:"w"`
	Params []string `json:"params"`
}

// vecEnv is the smallest Environ that can serve the vector: IFS, v, w and the positional
// parameters, presented the way interp presents them (an Indexed variable for "@" and "*").
type vecEnv struct {
	vars   map[string]string
	params []string
}

func (e *vecEnv) Get(name string) expand.Variable {
	switch name {
	case "@", "*":
		return expand.Variable{Kind: expand.Indexed, List: e.params}
	case "#":
		return expand.Variable{Set: true, Kind: expand.String, Str: strconv.Itoa(len(e.params))}
	}
	if len(name) == 1 && name[0] >= '1' && name[0] <= '9' {
		if i := int(name[0] - '1'); i < len(e.params) {
			return expand.Variable{Set: true, Kind: expand.String, Str: e.params[i]}
		}
		return expand.Variable{}
	}
	if s, ok := e.vars[name]; ok {
		return expand.Variable{Set: true, Kind: expand.String, Str: s}
	}
	return expand.Variable{}
}

func (e *vecEnv) Each(fn func(string, expand.Variable) bool) {
	for k, v := range e.vars {
		if !fn(k, expand.Variable{Set: true, Kind: expand.String, Str: v}) {
			return
		}
	}
}

func b(s string) string { return string(hlib.Unlatin1(s)) }

func fieldsEngine(raw json.RawMessage, _ []string) (any, error) {
	var v fieldsVec
	if err := json.Unmarshal(raw, &v); err != nil {
		return nil, err
	}
	env := &vecEnv{vars: map[string]string{}, params: []string{}}
	if v.Ifs.Set {
		env.vars["IFS"] = b(v.Ifs.Val)
	}
	if v.V.Set {
		env.vars["v"] = b(v.V.Val)
	}
	if v.W.Set {
		env.vars["w"] = b(v.W.Val)
	}
	for _, p := range v.Params {
		env.params = append(env.params, b(p))
	}
	p := syntax.NewParser(syntax.Variant(syntax.LangBash))
	file, err := p.Parse(bytes.NewReader(append([]byte("x "), append(hlib.Unlatin1(v.Src), '\n')...)), "")
	if err != nil {
		return map[string]any{"err": "parse: " + err.Error()}, nil
	}
	if len(file.Stmts) != 1 {
		return nil, fmt.Errorf("word source %q parsed to %d statements", v.Src, len(file.Stmts))
	}
	call, ok := file.Stmts[0].Cmd.(*syntax.CallExpr)
	if !ok || len(call.Args) < 1 {
		return nil, fmt.Errorf("word source %q is not a simple command", v.Src)
	}
	cfg := &expand.Config{Env: env}
	cfg.CmdSubst = func(w io.Writer, cs *syntax.CmdSubst) error {
		// command substitutions are run by a fresh interpreter that sees the same variables
		pairs := []string{}
		for k, val := range env.vars {
			pairs = append(pairs, k+"="+val)
		}
		r, err := interp.New(interp.StdIO(nil, w, io.Discard), interp.Env(expand.ListEnviron(pairs...)),
			interp.Params(append([]string{"--"}, env.params...)...))
		if err != nil {
			return err
		}
		for _, st := range cs.Stmts {
			if err := r.Run(context.Background(), st); err != nil {
				if _, ok := interp.IsExitStatus(err); !ok {
					return err
				}
			}
		}
		return nil
	}
	fields, err := expand.Fields(cfg, call.Args[1:]...)
	res := map[string]any{}
	if err != nil {
		res["err"] = err.Error()
	}
	out := make([]string, len(fields))
	for i, f := range fields {
		out[i] = hlib.Latin1([]byte(f))
	}
	res["fields"] = out
	return res, nil
}
