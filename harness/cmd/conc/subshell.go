package main

// Engine "c27": runs one rendered C27 behaviour in the real interpreter.
//
// Vector {"src": program}                       -> the whole program is one Run call;
// vector {"pre","child","post", "api": true}    -> `pre` runs on a Runner r, then r2 := r.Subshell()
//   (the exported API), `child` runs on r2, `post` runs on r again.  Besides the program output the
//   engine compares r's exported state (Vars incl. the List/Indexes/Map storage, Funcs, Dir, Params)
//   before and after the child ran -- a Go-level observation of the same isolation contract.
//
// Every run happens in a fresh directory containing d1/d2 (the cd mutators need them); TMPDIR is
// that directory, so FIFOs left behind by process substitutions are counted.

import (
	"bytes"
	"context"
	"encoding/json"
	"fmt"
	"maps"
	"os"
	"reflect"
	"runtime/debug"
	"slices"
	"sort"
	"strings"
	"time"

	"mvdan.cc/sh/v3/expand"
	"mvdan.cc/sh/v3/interp"
	"mvdan.cc/sh/v3/syntax"
	"verif/harness/hlib"
)

func init() { hlib.Register("c27", c27Engine) }

type c27Vec struct {
	Src       string `json:"src"`
	Pre       string `json:"pre"`
	Child     string `json:"child"`
	Post      string `json:"post"`
	API       bool   `json:"api"`
	TimeoutMs int    `json:"timeout_ms"`
}

type c27Res struct {
	Out       string   `json:"out"`
	Err       string   `json:"err"`
	Status    int      `json:"status"`
	RunError  string   `json:"run_error,omitempty"`
	Timeout   bool     `json:"timeout,omitempty"`
	Panic     string   `json:"panic,omitempty"`
	Stack     string   `json:"stack,omitempty"`
	GoChanged []string `json:"go_changed,omitempty"`
	FifoLeft  int      `json:"fifo_left,omitempty"`
}

func parseSh(src string) (*syntax.File, error) {
	return syntax.NewParser(syntax.Variant(syntax.LangBash)).Parse(bytes.NewReader(hlib.Unlatin1(src)), "")
}

func cloneVar(v expand.Variable) expand.Variable {
	v.List = slices.Clone(v.List)
	v.Indexes = slices.Clone(v.Indexes)
	v.Map = maps.Clone(v.Map)
	return v
}

type goSnap struct {
	vars   map[string]expand.Variable
	funcs  map[string]*syntax.Stmt
	dir    string
	params []string
}

func snapshot(r *interp.Runner) goSnap {
	s := goSnap{vars: map[string]expand.Variable{}, funcs: maps.Clone(r.Funcs), dir: r.Dir, params: slices.Clone(r.Params)}
	for k, v := range r.Vars {
		s.vars[k] = cloneVar(v)
	}
	return s
}

// diff reports which parts of r's exported state differ from the snapshot. r.Vars is not refreshed
// in between (only Run does that), so a difference means storage shared with the child was written.
func (s goSnap) diff(r *interp.Runner) []string {
	var out []string
	for k, v := range s.vars {
		if !reflect.DeepEqual(v, r.Vars[k]) {
			out = append(out, fmt.Sprintf("Vars[%s]: %v -> %v", k, v, r.Vars[k]))
		}
	}
	for k := range r.Vars {
		if _, ok := s.vars[k]; !ok {
			out = append(out, "Vars["+k+"] appeared")
		}
	}
	if len(s.funcs) != len(r.Funcs) {
		out = append(out, "Funcs: set of names changed")
	}
	for k, f := range s.funcs {
		if r.Funcs[k] != f {
			out = append(out, "Funcs["+k+"] changed")
		}
	}
	if s.dir != r.Dir {
		out = append(out, "Dir: "+s.dir+" -> "+r.Dir)
	}
	if !slices.Equal(s.params, r.Params) {
		out = append(out, fmt.Sprintf("Params: %v -> %v", s.params, r.Params))
	}
	sort.Strings(out)
	return out
}

func c27Engine(raw json.RawMessage, _ []string) (any, error) {
	var v c27Vec
	if err := json.Unmarshal(raw, &v); err != nil {
		return nil, err
	}
	var files []*syntax.File
	srcs := []string{v.Src}
	if v.API {
		srcs = []string{v.Pre, v.Child, v.Post}
	}
	for _, s := range srcs {
		f, err := parseSh(s)
		if err != nil {
			return c27Res{Status: -1, RunError: "parse: " + err.Error()}, nil
		}
		files = append(files, f)
	}
	dir := hlib.FreshDir()
	defer os.RemoveAll(dir)
	if err := os.MkdirAll(dir+"/d1/d2", 0o755); err != nil {
		return nil, err
	}
	var out, errb bytes.Buffer
	env := []string{"PATH=/usr/local/sbin:/usr/local/bin:/usr/sbin:/usr/bin:/sbin:/bin",
		"HOME=" + dir, "TMPDIR=" + dir, "LC_ALL=C.UTF-8", "PWD=" + dir}
	r, err := interp.New(interp.StdIO(strings.NewReader(""), &out, &errb),
		interp.Dir(dir), interp.Env(expand.ListEnviron(env...)))
	if err != nil {
		return c27Res{Status: -2, RunError: "New: " + err.Error()}, nil
	}
	to := time.Duration(v.TimeoutMs) * time.Millisecond
	if to == 0 {
		to = 10 * time.Second
	}
	ctx, cancel := context.WithTimeout(context.Background(), to)
	defer cancel()
	var res c27Res
	done := make(chan struct{})
	go func() {
		defer close(done)
		defer func() {
			if rec := recover(); rec != nil {
				res.Panic = fmt.Sprint(rec)
				res.Stack = hlib.TrimStack(string(debug.Stack()))
				res.Status = -4
			}
		}()
		record := func(err error) {
			if err == nil {
				return
			}
			if st, ok := interp.IsExitStatus(err); ok {
				res.Status = int(st)
			} else {
				res.RunError = err.Error()
				res.Status = -2
			}
		}
		if !v.API {
			record(r.Run(ctx, files[0]))
			return
		}
		record(r.Run(ctx, files[0]))
		snap := snapshot(r)
		r2 := r.Subshell()
		err := r2.Run(ctx, files[1])
		if _, ok := interp.IsExitStatus(err); err != nil && !ok {
			res.RunError = "child: " + err.Error()
		}
		res.GoChanged = snap.diff(r)
		record(r.Run(ctx, files[2]))
	}()
	select {
	case <-done:
	case <-time.After(to + 5*time.Second):
		return c27Res{Status: -3, Timeout: true, RunError: "Run did not return after cancellation",
			Out: hlib.Latin1(out.Bytes())}, nil
	}
	if ctx.Err() != nil {
		res.Timeout = true
	}
	res.Out, res.Err = hlib.Latin1(out.Bytes()), hlib.Latin1(errb.Bytes())
	if len(res.Err) > 600 {
		res.Err = res.Err[:600]
	}
	if ents, err := os.ReadDir(dir); err == nil {
		for _, e := range ents {
			if strings.HasPrefix(e.Name(), "sh-interp-") {
				res.FifoLeft++
			}
		}
	}
	return res, nil
}
