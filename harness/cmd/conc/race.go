package main

// Engine "c32": runs one (shape, schedule) of ShConc in the real interpreter. The binary is built
// with -race; the race runtime appends its reports to the file $VERIF_RACELOG.<pid> (GORACE
// log_path), and the engine attributes to a vector whatever was appended while it ran.
//
// The schedule is imposed only by time.Sleep inside the H12 yield hook: every labelled point
// (J = job label from the shell variable J, or "main" for the top Runner; K = phase label from the
// shell variable K) has a time slot, and the hook sleeps until slot*unit after the start of the run.
// No channel, mutex or atomic is used between the goroutines of the program under test, so the
// harness adds no happens-before edge that could hide a race (the final join of the "api" kind
// happens after all accesses).

import (
	"context"
	"encoding/json"
	"fmt"
	"os"
	"runtime/debug"
	"strings"
	"time"

	"mvdan.cc/sh/v3/expand"
	"mvdan.cc/sh/v3/interp"
	"mvdan.cc/sh/v3/syntax"
	"verif/harness/hlib"
)

func init() { hlib.Register("c32", c32Engine) }

type c32Vec struct {
	Kind      string         `json:"kind"` // "script" | "api"
	Src       string         `json:"src"`
	Pre       string         `json:"pre"`
	Job       string         `json:"job"`
	Main      string         `json:"main"`
	Post      string         `json:"post"`
	Slots     map[string]int `json:"slots"`
	UnitUs    int            `json:"unit_us"`
	TimeoutMs int            `json:"timeout_ms"`
}

type c32Res struct {
	Out      string `json:"out"`
	Err      string `json:"err"`
	Status   int    `json:"status"`
	RunError string `json:"run_error,omitempty"`
	Timeout  bool   `json:"timeout,omitempty"`
	Panic    string `json:"panic,omitempty"`
	Stack    string `json:"stack,omitempty"`
	Races    int    `json:"races"`
	Report   string `json:"report,omitempty"`
}

// State read by the hook. Written only between vectors, when no goroutine of a program is alive.
var (
	c32Main  *interp.Runner
	c32Slots map[string]int
	c32Unit  time.Duration
	c32T0    time.Time
)

func c32Hook(point string, r *interp.Runner) {
	if point != "stmt" {
		return
	}
	j := "main"
	if r != c32Main {
		j = interp.VerifVar(r, "J")
	}
	slot, ok := c32Slots[j+"|"+interp.VerifVar(r, "K")]
	if !ok {
		return
	}
	if d := time.Until(c32T0.Add(time.Duration(slot) * c32Unit)); d > 0 {
		time.Sleep(d)
	}
}

func raceLogSize() (string, int64) {
	p := os.Getenv("VERIF_RACELOG")
	if p == "" {
		return "", 0
	}
	p = fmt.Sprintf("%s.%d", p, os.Getpid())
	fi, err := os.Stat(p)
	if err != nil {
		return p, 0
	}
	return p, fi.Size()
}

func c32Engine(raw json.RawMessage, _ []string) (any, error) {
	var v c32Vec
	if err := json.Unmarshal(raw, &v); err != nil {
		return nil, err
	}
	srcs := []string{v.Src}
	if v.Kind == "api" {
		srcs = []string{v.Pre, v.Job, v.Main, v.Post}
	}
	var files []*syntax.File
	for _, s := range srcs {
		f, err := parseSh(s)
		if err != nil {
			return c32Res{Status: -1, RunError: "parse: " + err.Error()}, nil
		}
		files = append(files, f)
	}
	dir := hlib.FreshDir()
	defer os.RemoveAll(dir)
	if err := os.MkdirAll(dir+"/d1/d1", 0o755); err != nil {
		return nil, err
	}
	// stdout/stderr are files: an *os.File is safe for concurrent writers, as interp requires
	outf, err := os.Create(dir + "/.stdout")
	if err != nil {
		return nil, err
	}
	errf, err := os.Create(dir + "/.stderr")
	if err != nil {
		return nil, err
	}
	defer outf.Close()
	defer errf.Close()
	env := []string{"PATH=/usr/local/sbin:/usr/local/bin:/usr/sbin:/usr/bin:/sbin:/bin",
		"HOME=" + dir, "TMPDIR=" + dir, "LC_ALL=C.UTF-8", "PWD=" + dir}
	r, err := interp.New(interp.StdIO(nil, outf, errf), interp.Dir(dir), interp.Env(expand.ListEnviron(env...)))
	if err != nil {
		return c32Res{Status: -2, RunError: "New: " + err.Error()}, nil
	}
	to := time.Duration(v.TimeoutMs) * time.Millisecond
	if to == 0 {
		to = 10 * time.Second
	}
	ctx, cancel := context.WithTimeout(context.Background(), to)
	defer cancel()

	logPath, before := raceLogSize()
	c32Main, c32Slots, c32Unit = r, v.Slots, time.Duration(v.UnitUs)*time.Microsecond
	interp.VerifYieldHook = c32Hook
	var res c32Res
	done := make(chan struct{})
	go func() {
		defer close(done)
		defer func() {
			if rec := recover(); rec != nil {
				res.Panic = fmt.Sprint(rec)
				res.Stack = hlib.TrimStack(string(debug.Stack()))
				res.Status = -4
			}
		}()
		record := func(err error) {
			if err == nil {
				return
			}
			if st, ok := interp.IsExitStatus(err); ok {
				res.Status = int(st)
			} else {
				res.RunError = err.Error()
				res.Status = -2
			}
		}
		if v.Kind != "api" {
			c32T0 = time.Now()
			record(r.Run(ctx, files[0]))
			return
		}
		record(r.Run(ctx, files[0]))
		r2 := r.Subshell()
		jobDone := make(chan error, 1)
		c32T0 = time.Now()
		go func() { jobDone <- r2.Run(ctx, files[1]) }()
		record(r.Run(ctx, files[2]))
		jerr := <-jobDone // join: after every access of both sides
		st := 0
		if s, ok := interp.IsExitStatus(jerr); ok {
			st = int(s)
		} else if jerr != nil {
			res.RunError = "job: " + jerr.Error()
		}
		fmt.Fprintf(outf, "w1=%d\n", st)
		record(r.Run(ctx, files[3]))
	}()
	select {
	case <-done:
	case <-time.After(to + 5*time.Second):
		return c32Res{Status: -3, Timeout: true, RunError: "Run did not return after cancellation"}, nil
	}
	if ctx.Err() != nil {
		res.Timeout = true
	}
	ob, _ := os.ReadFile(dir + "/.stdout")
	eb, _ := os.ReadFile(dir + "/.stderr")
	res.Out, res.Err = hlib.Latin1(ob), hlib.Latin1(eb)
	if len(res.Err) > 600 {
		res.Err = res.Err[:600]
	}
	if logPath != "" {
		if _, after := raceLogSize(); after > before {
			if f, err := os.Open(logPath); err == nil {
				buf := make([]byte, after-before)
				f.ReadAt(buf, before)
				f.Close()
				rep := string(buf)
				res.Races = strings.Count(rep, "WARNING: DATA RACE")
				if len(rep) > 6000 {
					rep = rep[:6000]
				}
				res.Report = rep
			}
		}
	}
	return res, nil
}
