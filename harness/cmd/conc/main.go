// Command conc: harness binary for the C27/C32/C31 engines (subshell isolation, race freedom,
// cancellation) plus the generic "interp" engine from hlib.
package main

import (
	"os"
	"runtime/pprof"

	"verif/harness/hlib"
)

func main() {
	if p := os.Getenv("VERIF_CPUPROFILE"); p != "" { // development aid only
		if f, err := os.Create(p); err == nil {
			pprof.StartCPUProfile(f)
			defer pprof.StopCPUProfile()
		}
	}
	hlib.Main()
}
