// Command conc: harness binary for the C27/C32/C31 engines (subshell isolation, race freedom,
// cancellation) plus the generic "interp" engine from hlib.
package main

import "verif/harness/hlib"

func main() { hlib.Main() }
