package main

// Engine "c31": runs one program shape of ShCancel with the context cancelled at exactly step k of
// the run, for k = 0, 1, 2, ... (step = number of H12 hook events so far; no wall-clock racing), until
// the program is quiescent before step k is reached (then the cancellation comes from a watchdog once
// no hook event happened for a while) or kmax is reached.  For every k it measures the time from
// cancel to the return of Run against killTimeout + margin, re-runs once before reporting a miss,
// records the event trace and the last hook point of every goroutine, and counts FIFOs left behind.

import (
	"context"
	"encoding/json"
	"fmt"
	"os"
	"runtime"
	"runtime/debug"
	"strings"
	"sync"
	"syscall"
	"time"

	"mvdan.cc/sh/v3/expand"
	"mvdan.cc/sh/v3/interp"
	"verif/harness/hlib"
)

func init() { hlib.Register("c31", c31Engine) }

type c31Vec struct {
	ID        string `json:"id"`
	Txt       string `json:"txt"`
	Kmax      int    `json:"kmax"`
	KillMs    int    `json:"kill_ms"`
	MarginMs  int    `json:"margin_ms"`
	QuiesceMs int    `json:"quiesce_ms"`
	Steps     []int  `json:"steps"` // if set, exactly these k (replay)
}

type c31Run struct {
	K          int               `json:"k"`
	Effective  int               `json:"effective"` // hook events before the cancel
	ByWatchdog bool              `json:"by_watchdog"`
	Returned   bool              `json:"returned"`
	CancelToMs float64           `json:"cancel_to_return_ms"`
	Err        string            `json:"err"`
	ErrNil     bool              `json:"err_nil"`
	Blocked    map[string]string `json:"blocked"` // goroutine label -> last hook point, when not returned / after return
	Events     [][2]string       `json:"events"`
	FifoLeft   int               `json:"fifo_left"`
	Rerun      bool              `json:"rerun,omitempty"`
	Panic      string            `json:"panic,omitempty"`
}

type c31State struct {
	mu        sync.Mutex
	n         int
	k         int
	cancelled bool
	cancelAt  time.Time
	byWatch   bool
	effective int
	lastEvent time.Time
	events    [][2]string
	last      map[string]string
	cancel    context.CancelFunc
	main      *interp.Runner
	nonce     string
	mainGid   string
	gids      map[string]string
}

// goroutine id of the caller ("goroutine 123 [running]:" -> "123"); goroutines are what ShCancel calls
// main and j1, whatever Runner copies (subshells) they happen to run.
func gid() string {
	var buf [64]byte
	n := runtime.Stack(buf[:], false)
	f := strings.Fields(string(buf[:n]))
	if len(f) > 1 {
		return f[1]
	}
	return "?"
}

func (s *c31State) doCancel(byWatch bool) { // s.mu held
	s.cancelled, s.byWatch, s.effective, s.cancelAt = true, byWatch, s.n, time.Now()
	s.events = append(s.events, [2]string{"env", "cancel"})
	s.cancel()
}

func (s *c31State) hook(point string, r *interp.Runner) {
	if strings.HasPrefix(point, "hdoc.") {
		return // the Runner belongs to another goroutine here: do not look at it
	}
	if r != s.main && interp.VerifVar(r, "VRUN") != s.nonce {
		return // a goroutine left over from an earlier run
	}
	g := gid()
	s.mu.Lock()
	label, ok := s.gids[g]
	if !ok {
		label = fmt.Sprintf("j%d", len(s.gids))
		s.gids[g] = label
	}
	if !s.cancelled && s.n == s.k {
		s.doCancel(false)
	}
	s.n++
	s.events = append(s.events, [2]string{label, point})
	s.last[label] = point
	s.lastEvent = time.Now()
	s.mu.Unlock()
}

var c31Seq int

func c31One(v c31Vec, k int) (res c31Run) {
	res.K = k
	c31Seq++
	nonce := fmt.Sprintf("%d-%d", os.Getpid(), c31Seq)
	file, err := parseSh("VRUN=" + nonce + "\n" + v.Txt + "\n")
	if err != nil {
		res.Err = "parse: " + err.Error()
		return res
	}
	dir := hlib.FreshDir()
	defer os.RemoveAll(dir)
	stdinR, stdinW, err := os.Pipe()
	if err != nil {
		res.Err = err.Error()
		return res
	}
	defer stdinW.Close()
	defer stdinR.Close()
	outf, _ := os.Create(dir + "/.stdout")
	defer outf.Close()
	kill := time.Duration(v.KillMs) * time.Millisecond
	env := []string{"PATH=/usr/local/sbin:/usr/local/bin:/usr/sbin:/usr/bin:/sbin:/bin",
		"HOME=" + dir, "TMPDIR=" + dir, "LC_ALL=C.UTF-8", "PWD=" + dir}
	r, err := interp.New(interp.StdIO(stdinR, outf, outf), interp.Dir(dir), interp.Env(expand.ListEnviron(env...)),
		interp.ExecHandlers(func(next interp.ExecHandlerFunc) interp.ExecHandlerFunc {
			return interp.DefaultExecHandler(kill)
		}))
	if err != nil {
		res.Err = "New: " + err.Error()
		return res
	}
	ctx, cancel := context.WithCancel(context.Background())
	defer cancel()
	st := &c31State{k: k, cancel: cancel, main: r, nonce: nonce, last: map[string]string{}, lastEvent: time.Now(),
		gids: map[string]string{}}
	interp.VerifYieldHook = st.hook
	done := make(chan struct{})
	var runErr error
	go func() {
		defer close(done)
		defer func() {
			if rec := recover(); rec != nil {
				res.Panic = fmt.Sprint(rec) + " | " + hlib.TrimStack(string(debug.Stack()))
			}
		}()
		st.mu.Lock()
		st.gids[gid()] = "main"
		st.mu.Unlock()
		runErr = r.Run(ctx, file)
		st.mu.Lock()
		st.events = append(st.events, [2]string{"main", "return"})
		st.mu.Unlock()
	}()
	quiesce := time.Duration(v.QuiesceMs) * time.Millisecond
	bound := kill + time.Duration(v.MarginMs)*time.Millisecond
	tick := time.NewTicker(5 * time.Millisecond)
	defer tick.Stop()
	returned := false
loop:
	for {
		select {
		case <-done:
			returned = true
			break loop
		case <-tick.C:
			st.mu.Lock()
			q := quiesce
			for _, p := range st.last {
				if p == "exec.before" {
					q = 3 * time.Second // a child process needs time to start, install its handlers, print
				}
			}
			if !st.cancelled && time.Since(st.lastEvent) > q {
				st.doCancel(true) // quiescent before step k: cancel now
			}
			over := st.cancelled && time.Since(st.cancelAt) > bound
			st.mu.Unlock()
			if over {
				break loop
			}
		}
	}
	end := time.Now()
	st.mu.Lock()
	res.Returned = returned
	res.Effective, res.ByWatchdog = st.effective, st.byWatch
	if !st.cancelled { // the program ended by itself before step k
		res.Effective = st.n
	}
	if st.cancelled {
		res.CancelToMs = float64(end.Sub(st.cancelAt).Microseconds()) / 1000
	}
	res.Events = append([][2]string(nil), st.events...)
	res.Blocked = map[string]string{}
	for g, p := range st.last {
		if strings.HasSuffix(p, ".before") || p == "fifo.open" || p == "pipe.wait" {
			res.Blocked[g] = p
		}
	}
	st.mu.Unlock()
	if returned {
		res.ErrNil = runErr == nil
		if runErr != nil {
			res.Err = runErr.Error()
		}
	}
	// FIFOs left behind; open their other ends so that the goroutines stuck in open(2) go away
	if ents, err := os.ReadDir(dir); err == nil {
		for _, e := range ents {
			if strings.HasPrefix(e.Name(), "sh-interp-") {
				res.FifoLeft++
				p := dir + "/" + e.Name()
				if fd, err := syscall.Open(p, syscall.O_RDONLY|syscall.O_NONBLOCK, 0); err == nil {
					defer syscall.Close(fd)
				}
				if fd, err := syscall.Open(p, syscall.O_WRONLY|syscall.O_NONBLOCK, 0); err == nil {
					defer syscall.Close(fd)
				}
			}
		}
	}
	if !returned {
		select { // after the FIFOs were released the run may come back; it stays a miss
		case <-done:
		case <-time.After(300 * time.Millisecond):
		}
	}
	return res
}

func c31Engine(raw json.RawMessage, _ []string) (any, error) {
	var v c31Vec
	if err := json.Unmarshal(raw, &v); err != nil {
		return nil, err
	}
	if v.KillMs == 0 {
		v.KillMs = 200
	}
	if v.MarginMs == 0 {
		v.MarginMs = 3000
	}
	if v.QuiesceMs == 0 {
		v.QuiesceMs = 80
	}
	var runs []c31Run
	try := func(k int) c31Run {
		r := c31One(v, k)
		if r.Panic == "" && (!r.Returned || r.ErrNil) {
			// a miss (no return in time, or a nil error): re-run once before reporting
			r2 := c31One(v, k)
			r2.Rerun = true
			if r2.Returned && !r2.ErrNil {
				return r2
			}
			r.Rerun = true
		}
		return r
	}
	if len(v.Steps) > 0 {
		for _, k := range v.Steps {
			runs = append(runs, try(k))
		}
		return map[string]any{"id": v.ID, "runs": runs}, nil
	}
	for k := 0; k <= v.Kmax; k++ {
		r := try(k)
		runs = append(runs, r)
		if r.ByWatchdog || r.Effective < k {
			break // quiescent (or finished) before step k: larger k give the same run
		}
		if !r.Returned {
			// a miss, confirmed by the re-run: it is reported; the goroutines of such runs keep running (an
			// endless loop that ignores the context cannot be stopped from outside), so do not pile up more
			break
		}
	}
	return map[string]any{"id": v.ID, "runs": runs}, nil
}
