package main

// Engines for C28 (the interpreter never panics):
//   c28run    run one program in-process under recover() with a timeout; external commands are
//             never spawned; the program is parsed in the requested variant, or ("any") in the
//             first variant that accepts it.
//   c28params interp.New(interp.Params(argv...)) under recover(), then a one-line program.
//   c28opts   interp.New with every data-valued option at edge values, under recover().
// A panic in a goroutine started by the interpreter (pipeline stage, background job) cannot be
// recovered here and kills the process; the Python side notices the missing result and reports
// the vector as a crash with the runtime's message.

import (
	"bytes"
	"context"
	"encoding/json"
	"fmt"
	"os"
	"runtime/debug"
	"strings"
	"time"

	"verif/harness/hlib"

	"mvdan.cc/sh/v3/expand"
	"mvdan.cc/sh/v3/interp"
	"mvdan.cc/sh/v3/syntax"
)

func init() {
	hlib.Register("c28run", withSide(c28Run))
	hlib.Register("c28params", withSide(c28Params))
	hlib.Register("c28opts", withSide(c28Opts))
}

// withSide: hlib buffers the results on stdout and flushes at exit, so a process killed by a
// panic in a goroutine loses the results of the vectors it had already finished. When
// VERIF_SIDE names a file, every result is also appended to it immediately (one JSON per
// line, unbuffered), which lets the driver attribute the crash to the right vector.
func withSide(fn hlib.EngineFn) hlib.EngineFn {
	var side *os.File
	if p := os.Getenv("VERIF_SIDE"); p != "" {
		side, _ = os.OpenFile(p, os.O_WRONLY|os.O_CREATE|os.O_APPEND, 0o644)
	}
	return func(raw json.RawMessage, args []string) (any, error) {
		res, err := fn(raw, args)
		if side != nil {
			var b []byte
			if err != nil {
				b, _ = json.Marshal(map[string]any{"harness_error": err.Error()})
			} else {
				b, _ = json.Marshal(res)
			}
			side.Write(append(b, '\n'))
		}
		return res, err
	}
}

type c28Vec struct {
	Src       string   `json:"src"`
	Lang      string   `json:"lang"` // bash|posix|mksh|bats|zsh|any
	Params    []string `json:"params"`
	Stdin     *string  `json:"stdin"`
	TimeoutMs int      `json:"timeout_ms"`
}

type c28Res struct {
	Out        string `json:"out"`
	Err        string `json:"err"`
	Status     int    `json:"status"`
	Lang       string `json:"lang,omitempty"`
	ParseError string `json:"parse_error,omitempty"`
	RunError   string `json:"run_error,omitempty"`
	Timeout    bool   `json:"timeout,omitempty"`
	Hang       bool   `json:"hang,omitempty"` // did not return even after the context was cancelled
	Panic      string `json:"panic,omitempty"`
	Stack      string `json:"stack,omitempty"`
}

var allLangs = []string{"bash", "posix", "mksh", "bats", "zsh"}

func parseAny(src []byte, lang string) (*syntax.File, string, error) {
	langs := []string{lang}
	if lang == "any" || lang == "" {
		langs = allLangs
	}
	var firstErr error
	for _, l := range langs {
		p := syntax.NewParser(syntax.Variant(hlib.LangOf(l)))
		f, err := p.Parse(bytes.NewReader(src), "")
		if err == nil {
			return f, l, nil
		}
		if firstErr == nil {
			firstErr = err
		}
	}
	return nil, "", firstErr
}

// runGuarded runs fn in a goroutine, converting a panic into a result and enforcing a timeout.
func runGuarded(to time.Duration, cancel context.CancelFunc, fn func() error) (err error, pan any, stack string, timeout, hang bool) {
	type ro struct {
		err   error
		pan   any
		stack string
	}
	done := make(chan ro, 1)
	go func() {
		var r ro
		defer func() {
			if rec := recover(); rec != nil {
				r.pan = rec
				r.stack = hlib.TrimStack(string(debug.Stack()))
			}
			done <- r
		}()
		r.err = fn()
	}()
	select {
	case r := <-done:
		return r.err, r.pan, r.stack, false, false
	case <-time.After(to):
		cancel()
		select {
		case r := <-done:
			return r.err, r.pan, r.stack, true, false
		case <-time.After(3 * time.Second):
			return nil, nil, "", true, true
		}
	}
}

// procDir is the working directory shared by the programs of one harness process; it is
// emptied after a program that left something behind and replaced after a hang.
var procDir string

func workDir() string {
	if procDir == "" {
		procDir = hlib.FreshDir()
	}
	return procDir
}

func cleanWorkDir(replace bool) {
	if procDir == "" {
		return
	}
	if replace {
		procDir = "" // a hung program may still write there; leave it to the scratch cleanup
		return
	}
	if ents, err := os.ReadDir(procDir); err != nil || len(ents) > 0 {
		os.RemoveAll(procDir)
		os.Mkdir(procDir, 0o755)
	}
}

func c28Run(raw json.RawMessage, _ []string) (any, error) {
	var v c28Vec
	if err := json.Unmarshal(raw, &v); err != nil {
		return nil, err
	}
	var res c28Res
	dir := workDir()
	var out, errb bytes.Buffer
	to := time.Duration(v.TimeoutMs) * time.Millisecond
	if to == 0 {
		to = 4 * time.Second
	}
	ctx, cancel := context.WithCancel(context.Background())
	defer cancel()
	stage := "parser: "
	// parser, New and Run under one recover(): the parser is part of "never panics" too
	runErr, pan, stack, timeout, hang := runGuarded(to, cancel, func() error {
		file, lang, err := parseAny(hlib.Unlatin1(v.Src), v.Lang)
		if err != nil {
			res.ParseError = err.Error()
			res.Status = -1
			return nil
		}
		res.Lang = lang
		stage = "New: "
		env := expand.ListEnviron("PATH=/nonexistent", "HOME="+dir, "TMPDIR="+dir, "LC_ALL=C.UTF-8", "PWD="+dir)
		opts := []interp.RunnerOption{interp.Dir(dir), interp.Env(env), interp.ExecHandlers(noForkExec),
			interp.Params(append([]string{"--"}, v.Params...)...)}
		if v.Stdin != nil {
			opts = append(opts, interp.StdIO(strings.NewReader(string(hlib.Unlatin1(*v.Stdin))), &out, &errb))
		} else {
			opts = append(opts, interp.StdIO(nil, &out, &errb))
		}
		r, err := interp.New(opts...)
		if err != nil {
			res.RunError, res.Status = "New: "+err.Error(), -2
			return nil
		}
		stage = ""
		return r.Run(ctx, file)
	})
	res.Timeout, res.Hang = timeout, hang
	if hang {
		res.Status = -3
		cleanWorkDir(true)
		return res, nil // buffers may still be written to; do not touch them
	}
	if pan != nil {
		res.Panic, res.Stack, res.Status = stage+fmt.Sprint(pan), stack, -4
	} else if runErr != nil {
		if es, ok := runErr.(interp.ExitStatus); ok {
			res.Status = int(es)
		} else {
			res.RunError, res.Status = runErr.Error(), -2
		}
	}
	cleanWorkDir(timeout)
	res.Out = hlib.Latin1(out.Bytes())
	res.Err = strings.ReplaceAll(hlib.Latin1(errb.Bytes()), dir, "D0")
	if len(res.Out) > 2000 {
		res.Out = res.Out[:2000]
	}
	if len(res.Err) > 400 {
		res.Err = res.Err[:400]
	}
	return res, nil
}

type c28ParamsVec struct {
	Argv []string `json:"argv"`
}

func c28Params(raw json.RawMessage, _ []string) (any, error) {
	var v c28ParamsVec
	if err := json.Unmarshal(raw, &v); err != nil {
		return nil, err
	}
	res := map[string]any{}
	var out, errb bytes.Buffer
	var r *interp.Runner
	_, pan, stack, _, _ := runGuarded(5*time.Second, func() {}, func() error {
		var err error
		r, err = interp.New(interp.StdIO(nil, &out, &errb), interp.Env(expand.ListEnviron("PATH=/nonexistent")),
			interp.ExecHandlers(noForkExec), interp.Params(v.Argv...))
		if err != nil {
			res["new_error"] = err.Error()
		}
		return nil
	})
	if pan != nil {
		res["panic"], res["stack"] = "New(Params): "+fmt.Sprint(pan), stack
		return res, nil
	}
	if r == nil {
		return res, nil
	}
	f, _ := syntax.NewParser().Parse(strings.NewReader("echo \"$-:$#:$*\"\n"), "")
	ctx, cancel := context.WithCancel(context.Background())
	defer cancel()
	_, pan, stack, timeout, _ := runGuarded(4*time.Second, cancel, func() error { return r.Run(ctx, f) })
	if pan != nil {
		res["panic"], res["stack"] = "Run after New(Params): "+fmt.Sprint(pan), stack
	}
	res["timeout"] = timeout
	res["out"] = out.String()
	return res, nil
}

// c28Opts: every data-valued option of interp.New at edge values. Function-valued options
// (handlers) are not data and a nil function is a programming error, so they are left out.
func c28Opts(raw json.RawMessage, _ []string) (any, error) {
	type tc struct {
		name string
		opts func() []interp.RunnerOption
	}
	dir := hlib.FreshDir()
	defer os.RemoveAll(dir)
	os.WriteFile(dir+"/file", nil, 0o644)
	var buf bytes.Buffer
	cases := []tc{
		{"none", func() []interp.RunnerOption { return nil }},
		{"Env(nil)", func() []interp.RunnerOption { return []interp.RunnerOption{interp.Env(nil)} }},
		{"Env(empty)", func() []interp.RunnerOption { return []interp.RunnerOption{interp.Env(expand.ListEnviron())} }},
		{"Env(FuncEnviron empty)", func() []interp.RunnerOption {
			return []interp.RunnerOption{interp.Env(expand.FuncEnviron(func(string) string { return "" }))}
		}},
		{"Env(odd pairs)", func() []interp.RunnerOption {
			return []interp.RunnerOption{interp.Env(expand.ListEnviron("=", "=x", "A", "A=", "A=1", "TMPDIR=relative", "HOME=", "OPTIND=x", "IFS="))}
		}},
		{"Dir(empty)", func() []interp.RunnerOption { return []interp.RunnerOption{interp.Dir("")} }},
		{"Dir(nonexistent)", func() []interp.RunnerOption { return []interp.RunnerOption{interp.Dir("/nonexistent/x")} }},
		{"Dir(file)", func() []interp.RunnerOption { return []interp.RunnerOption{interp.Dir(dir + "/file")} }},
		{"Dir(relative)", func() []interp.RunnerOption { return []interp.RunnerOption{interp.Dir(".")} }},
		{"Dir(NUL)", func() []interp.RunnerOption { return []interp.RunnerOption{interp.Dir("a\x00b")} }},
		{"StdIO(nil,nil,nil)", func() []interp.RunnerOption { return []interp.RunnerOption{interp.StdIO(nil, nil, nil)} }},
		{"StdIO(reader,buf,buf)", func() []interp.RunnerOption {
			return []interp.RunnerOption{interp.StdIO(strings.NewReader("in\n"), &buf, &buf)}
		}},
		{"StdIO twice", func() []interp.RunnerOption {
			return []interp.RunnerOption{interp.StdIO(nil, &buf, nil), interp.StdIO(nil, nil, &buf)}
		}},
		{"Interactive(true)", func() []interp.RunnerOption { return []interp.RunnerOption{interp.Interactive(true)} }},
		{"Interactive(false)", func() []interp.RunnerOption { return []interp.RunnerOption{interp.Interactive(false)} }},
		{"Params()", func() []interp.RunnerOption { return []interp.RunnerOption{interp.Params()} }},
		{"Params twice", func() []interp.RunnerOption {
			return []interp.RunnerOption{interp.Params("-e", "--", "a"), interp.Params("+e")}
		}},
		{"ExecHandlers()", func() []interp.RunnerOption { return []interp.RunnerOption{interp.ExecHandlers()} }},
		{"CallHandler(nil)", func() []interp.RunnerOption { return []interp.RunnerOption{interp.CallHandler(nil)} }},
		{"all", func() []interp.RunnerOption {
			return []interp.RunnerOption{interp.Env(nil), interp.Dir(dir), interp.StdIO(nil, &buf, &buf), interp.Interactive(true),
				interp.Params("-u", "--", "x"), interp.ExecHandlers(noForkExec)}
		}},
	}
	prog, _ := syntax.NewParser().Parse(strings.NewReader("echo \"$-:$#\"; read x; cd .; pwd >/dev/null; echo ~ >/dev/null\n"), "")
	var results []map[string]any
	for _, c := range cases {
		res := map[string]any{"name": c.name}
		var r *interp.Runner
		_, pan, stack, _, _ := runGuarded(5*time.Second, func() {}, func() error {
			var err error
			r, err = interp.New(c.opts()...)
			if err != nil {
				res["new_error"] = err.Error()
			}
			return nil
		})
		if pan != nil {
			res["panic"], res["stack"] = "New: "+fmt.Sprint(pan), stack
		} else if r != nil {
			ctx, cancel := context.WithCancel(context.Background())
			_, pan, stack, timeout, _ := runGuarded(4*time.Second, cancel, func() error { return r.Run(ctx, prog) })
			cancel()
			if pan != nil {
				res["panic"], res["stack"] = "Run: "+fmt.Sprint(pan), stack
			}
			res["timeout"] = timeout
			// Reset and Subshell are part of the same life cycle
			_, pan, stack, _, _ = runGuarded(4*time.Second, func() {}, func() error { r.Reset(); _ = r.Subshell(); return nil })
			if pan != nil {
				res["panic"], res["stack"] = "Reset/Subshell: "+fmt.Sprint(pan), stack
			}
		}
		results = append(results, res)
	}
	return map[string]any{"cases": results}, nil
}
