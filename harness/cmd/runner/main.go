// Command runner: harness binary for the Runner life-cycle family (C30, C29, C28) plus the
// generic "interp" engine that every binary has.
package main

import (
	"os"
	"runtime/pprof"

	"verif/harness/hlib"
)

func main() {
	if p := os.Getenv("VERIF_PPROF"); p != "" { // development aid
		f, err := os.Create(p)
		if err == nil {
			pprof.StartCPUProfile(f)
			defer pprof.StopCPUProfile()
		}
	}
	hlib.Main()
}
