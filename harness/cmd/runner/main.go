// Command runner: harness binary for the Runner life-cycle family (C30, C29, C28) plus the
// generic "interp" engine that every binary has.
package main

import "verif/harness/hlib"

func main() { hlib.Main() }
