package main

// Engine "lifecycle" (C30, C29): executes a script of API calls (New, Run, Reset, statement-at-a-time
// Run) on real interp.Runner objects and reports what is observable from outside: stdout/stderr,
// returned status, Exited(), Vars/Funcs/Dir/Params, the content of the file that `exec >file`
// programs write to, whether the syntax tree still encodes/prints as before the call, and what
// was done to the expand.Environ that the caller supplied through interp.Env.
// The engine contains no shell semantics: expected values come from spec/ShRunnerLife.tla.

import (
	"bytes"
	"context"
	"crypto/sha1"
	"encoding/hex"
	"encoding/json"
	"fmt"
	"os"
	"path/filepath"
	"runtime/debug"
	"sort"
	"strings"
	"time"

	"verif/harness/hlib"

	"mvdan.cc/sh/v3/expand"
	"mvdan.cc/sh/v3/interp"
	"mvdan.cc/sh/v3/syntax"
	"mvdan.cc/sh/v3/syntax/typedjson"
)

func init() { hlib.Register("lifecycle", withSide(lifecycleEngine)) }

type lcCfg struct {
	Params      []string `json:"params"`      // arguments of interp.Params; nil = option not given
	Interactive bool     `json:"interactive"` // interp.Interactive(true)
	Env         []string `json:"env"`         // NAME=value pairs of the user's Environ ("D0" = runner directory)
	Lang        string   `json:"lang"`
}

type lcStep struct {
	Op   string `json:"op"`   // run | reset | stmtwise
	Tree string `json:"tree"` // key into Trees
}

type lcVec struct {
	Cfg       lcCfg             `json:"cfg"`
	Trees     map[string]string `json:"trees"`
	Runners   [][]lcStep        `json:"runners"`
	TimeoutMs int               `json:"timeout_ms"`
	WantVars  bool              `json:"want_vars"`
	// TreeCheck: "" = after every call compare the printed form of the tree with the one at parse
	// time; "json" = additionally the typed-JSON encoding of every tree after all runners are done;
	// "json_each" = typed JSON after every call (typedjson costs ~3 ms per encoding of the probe).
	TreeCheck string `json:"tree_check"`
}

type lcStepRes struct {
	Op        string  `json:"op"`
	Out       string  `json:"out"`
	Err       string  `json:"err"`
	Status    int     `json:"status"`
	RunError  string  `json:"run_error,omitempty"`
	Exited    bool    `json:"exited"`
	Panic     string  `json:"panic,omitempty"`
	Stack     string  `json:"stack,omitempty"`
	Timeout   bool    `json:"timeout,omitempty"`
	File      *string `json:"file"` // content of $BASE/out1 after the step; null if absent
	TreeSame  bool    `json:"tree_same"`
	PrintSame bool    `json:"print_same"`
	TreeDiff  string  `json:"tree_diff,omitempty"`
	NRun      int     `json:"nrun"` // number of Run calls made by this step
	// Trace-validation fields (filled when tree_check is "json_each"): fingerprints of what the
	// caller owns, taken after the call, and the number of Set calls on the user's Environ so far.
	TreeHash string `json:"tree_hash,omitempty"`
	EnvHash  string `json:"env_hash,omitempty"`
	EnvSetN  int    `json:"env_setn"`
}

type lcVar struct {
	Kind     string            `json:"k"`
	Set      bool              `json:"set"`
	Str      string            `json:"s"`
	List     []string          `json:"l,omitempty"`
	Indexes  []int             `json:"ix,omitempty"`
	Map      map[string]string `json:"m,omitempty"`
	Exported bool              `json:"x"`
	ReadOnly bool              `json:"r"`
	Local    bool              `json:"local"`
}

type lcRunnerRes struct {
	NewError    string            `json:"new_error,omitempty"`
	Steps       []lcStepRes       `json:"steps"`
	Vars        map[string]lcVar  `json:"vars"`
	Funcs       map[string]string `json:"funcs"`
	Dir         string            `json:"dir"`
	Params      []string          `json:"params"`
	EnvSets     []string          `json:"env_sets"`      // names passed to Set on the user's Environ
	EnvEachSame bool              `json:"env_each_same"` // Each sequence after == before
	EnvGets     int               `json:"env_gets"`
	EnvBefore   []string          `json:"env_before,omitempty"`
	EnvAfter    []string          `json:"env_after,omitempty"`
	EnvHash0    string            `json:"env_hash0,omitempty"`
	TreeHash0   map[string]string `json:"tree_hash0,omitempty"`
}

// recEnv is the user's Environ: a ListEnviron behind a wrapper that also offers Set
// (expand.WriteEnviron). The contract of C29 is that Run never calls Set and never changes what
// Each enumerates.
type recEnv struct {
	inner expand.Environ
	over  map[string]expand.Variable // what a (forbidden) Set call would have written
	sets  []string
	gets  int
}

func (e *recEnv) Get(name string) expand.Variable {
	e.gets++
	if v, ok := e.over[name]; ok {
		return v
	}
	return e.inner.Get(name)
}

func (e *recEnv) Each(f func(string, expand.Variable) bool) {
	stop := false
	e.inner.Each(func(n string, v expand.Variable) bool {
		if o, ok := e.over[n]; ok {
			v = o
		}
		if !f(n, v) {
			stop = true
			return false
		}
		return true
	})
	if stop {
		return
	}
	var extra []string
	for n := range e.over {
		if !e.inner.Get(n).IsSet() {
			extra = append(extra, n)
		}
	}
	sort.Strings(extra)
	for _, n := range extra {
		if !f(n, e.over[n]) {
			return
		}
	}
}

func (e *recEnv) Set(name string, vr expand.Variable) error {
	e.sets = append(e.sets, name)
	if e.over == nil {
		e.over = map[string]expand.Variable{}
	}
	e.over[name] = vr
	return nil
}

var _ expand.WriteEnviron = (*recEnv)(nil)

func envSeq(e expand.Environ) []string {
	var out []string
	e.Each(func(n string, v expand.Variable) bool {
		out = append(out, fmt.Sprintf("%s=%s|set=%v x=%v r=%v k=%v l=%q", n, v.Str, v.Set, v.Exported, v.ReadOnly, v.Kind, v.List))
		return true
	})
	return out
}

type lcTree struct {
	file   *syntax.File
	golden []byte // typed JSON at parse time
	print  []byte // printed form at parse time
	hash0  string // fingerprint at parse time
}

func fingerprint(parts ...[]byte) string {
	h := sha1.New()
	for _, p := range parts {
		h.Write(p)
		h.Write([]byte{0})
	}
	return hex.EncodeToString(h.Sum(nil))[:16]
}

func envHash(e expand.Environ) string {
	return fingerprint([]byte(strings.Join(envSeq(e), "\n")))
}

func snapJSON(f *syntax.File) []byte {
	var jb bytes.Buffer
	if err := (typedjson.EncodeOptions{}).Encode(&jb, f); err != nil {
		jb.WriteString("ENCODE ERROR: " + err.Error())
	}
	return jb.Bytes()
}

func snapPrint(f *syntax.File) []byte {
	var pb bytes.Buffer
	if err := syntax.NewPrinter().Print(&pb, f); err != nil {
		pb.WriteString("PRINT ERROR: " + err.Error())
	}
	return pb.Bytes()
}

func firstDiff(a, b []byte) string {
	n := min(len(a), len(b))
	i := 0
	for i < n && a[i] == b[i] {
		i++
	}
	lo := max(0, i-60)
	return fmt.Sprintf("at byte %d: before=%q after=%q", i, a[lo:min(len(a), i+60)], b[lo:min(len(b), i+60)])
}

func kindName(k expand.ValueKind) string {
	switch k {
	case expand.Unknown:
		return "unknown"
	case expand.String:
		return "string"
	case expand.NameRef:
		return "nameref"
	case expand.Indexed:
		return "indexed"
	case expand.Associative:
		return "assoc"
	case expand.KeepValue:
		return "keep"
	}
	return fmt.Sprint(int(k))
}

func noForkExec(next interp.ExecHandlerFunc) interp.ExecHandlerFunc {
	// External commands are never spawned: every command that is neither a function nor a
	// builtin "is not found". Keeps the engine in-process and deterministic.
	return func(ctx context.Context, args []string) error {
		hc := interp.HandlerCtx(ctx)
		fmt.Fprintf(hc.Stderr, "%s: not found\n", args[0])
		return interp.ExitStatus(127)
	}
}

func lifecycleEngine(raw json.RawMessage, _ []string) (any, error) {
	var v lcVec
	if err := json.Unmarshal(raw, &v); err != nil {
		return nil, err
	}
	trees := map[string]*lcTree{}
	for name, src := range v.Trees {
		p := syntax.NewParser(syntax.Variant(hlib.LangOf(v.Cfg.Lang)))
		f, err := p.Parse(bytes.NewReader(hlib.Unlatin1(src)), "")
		if err != nil {
			return map[string]any{"parse_error": name + ": " + err.Error()}, nil
		}
		t := &lcTree{file: f}
		t.print = snapPrint(f)
		if v.TreeCheck != "" {
			t.golden = snapJSON(f)
			t.hash0 = fingerprint(t.golden, t.print)
		}
		trees[name] = t
	}
	to := time.Duration(v.TimeoutMs) * time.Millisecond
	if to == 0 {
		to = 5 * time.Second
	}
	var out []lcRunnerRes
	for _, steps := range v.Runners {
		out = append(out, runLifecycle(v, trees, steps, to))
	}
	// Every tree once more after all runners are done: typed JSON and printed form as at parse time.
	changed := map[string]string{}
	for name, t := range trees {
		if v.TreeCheck != "" {
			if js := snapJSON(t.file); !bytes.Equal(js, t.golden) {
				changed[name] = "typedjson " + firstDiff(t.golden, js)
				continue
			}
		}
		if pr := snapPrint(t.file); !bytes.Equal(pr, t.print) {
			changed[name] = "printed " + firstDiff(t.print, pr)
		}
	}
	return map[string]any{"runners": out, "trees_changed": changed}, nil
}

func runLifecycle(v lcVec, trees map[string]*lcTree, steps []lcStep, to time.Duration) (res lcRunnerRes) {
	base := hlib.FreshDir()
	defer os.RemoveAll(base)
	os.MkdirAll(filepath.Join(base, "sub1"), 0o755)
	os.MkdirAll(filepath.Join(base, "sub2"), 0o755)
	os.WriteFile(filepath.Join(base, "sub1", "x1"), nil, 0o644)
	os.WriteFile(filepath.Join(base, "sub1", "x2"), nil, 0o644)
	norm := func(s string) string { return strings.ReplaceAll(s, base, "D0") }

	// The user's environment comes from the spec (userEnv); "D0" stands for the runner's directory.
	pairs := make([]string, len(v.Cfg.Env))
	for i, kv := range v.Cfg.Env {
		pairs[i] = strings.ReplaceAll(kv, "D0", base)
	}
	uenv := &recEnv{inner: expand.ListEnviron(pairs...)}
	before := envSeq(uenv)
	if v.TreeCheck == "json_each" {
		res.EnvHash0 = envHash(uenv)
		res.TreeHash0 = map[string]string{}
		for name, t := range trees {
			res.TreeHash0[name] = t.hash0
		}
	}
	uenv.gets = 0

	var outb, errb bytes.Buffer
	opts := []interp.RunnerOption{interp.StdIO(nil, &outb, &errb), interp.Dir(base), interp.Env(uenv),
		interp.ExecHandlers(noForkExec)}
	if v.Cfg.Params != nil {
		opts = append(opts, interp.Params(v.Cfg.Params...))
	}
	if v.Cfg.Interactive {
		opts = append(opts, interp.Interactive(true))
	}
	r, err := interp.New(opts...)
	if err != nil {
		res.NewError = err.Error()
		return res
	}
	res.Steps = []lcStepRes{}
	dead := false
	// One context for the whole life of the runner: background jobs started by one Run call
	// may still be running during the next one, so it is cancelled only at the very end.
	ctx, cancel := context.WithCancel(context.Background())
	defer cancel()
	for _, st := range steps {
		sr := lcStepRes{Op: st.Op, TreeSame: true, PrintSame: true}
		if dead {
			sr.RunError = "skipped: runner abandoned after panic/timeout"
			res.Steps = append(res.Steps, sr)
			continue
		}
		outb.Reset()
		errb.Reset()
		var t *lcTree
		if st.Op != "reset" {
			t = trees[st.Tree]
			if t == nil {
				sr.RunError = "harness: unknown tree " + st.Tree
				res.Steps = append(res.Steps, sr)
				continue
			}
		}
		type runOut struct {
			err    error
			pan    any
			stack  string
			nrun   int
			exited bool
		}
		done := make(chan runOut, 1)
		go func() {
			var ro runOut
			defer func() {
				if rec := recover(); rec != nil {
					ro.pan = rec
					ro.stack = hlib.TrimStack(string(debug.Stack()))
				}
				done <- ro
			}()
			switch st.Op {
			case "reset":
				r.Reset()
			case "run":
				ro.nrun = 1
				ro.err = r.Run(ctx, t.file)
				ro.exited = r.Exited()
			case "stmtwise":
				// The documented incremental use: one Run call per top-level statement,
				// stopping once Exited reports true.
				for _, stmt := range t.file.Stmts {
					ro.nrun++
					ro.err = r.Run(ctx, stmt)
					ro.exited = r.Exited()
					if ro.exited {
						break
					}
				}
			default:
				ro.err = fmt.Errorf("harness: unknown op %q", st.Op)
			}
		}()
		var ro runOut
		select {
		case ro = <-done:
		case <-time.After(to):
			// The call did not return: cancel the runner's context and give it a moment.
			cancel()
			select {
			case ro = <-done:
			case <-time.After(3 * time.Second):
			}
			sr.Timeout = true
			dead = true
		}
		sr.NRun = ro.nrun
		sr.Exited = ro.exited
		if ro.pan != nil {
			sr.Panic = fmt.Sprint(ro.pan)
			sr.Stack = ro.stack
			sr.Status = -4
			dead = true
		} else if ro.err != nil {
			if es, ok := ro.err.(interp.ExitStatus); ok {
				sr.Status = int(es)
			} else {
				sr.RunError = norm(ro.err.Error())
				sr.Status = -2
			}
		}
		sr.Out = norm(hlib.Latin1(outb.Bytes()))
		sr.Err = norm(hlib.Latin1(errb.Bytes()))
		if len(sr.Err) > 800 {
			sr.Err = sr.Err[:800]
		}
		if b, err := os.ReadFile(filepath.Join(base, "out1")); err == nil {
			s := norm(hlib.Latin1(b))
			sr.File = &s
		}
		if t != nil {
			pr := snapPrint(t.file)
			sr.PrintSame = bytes.Equal(pr, t.print)
			if v.TreeCheck == "json_each" {
				js := snapJSON(t.file)
				sr.TreeSame = bytes.Equal(js, t.golden)
				if !sr.TreeSame {
					sr.TreeDiff = "typedjson " + firstDiff(t.golden, js)
				}
				sr.TreeHash = fingerprint(js, pr)
			}
			if !sr.PrintSame && sr.TreeDiff == "" {
				sr.TreeDiff = "printed " + firstDiff(t.print, pr)
			}
		}
		if v.TreeCheck == "json_each" {
			sr.EnvHash = envHash(uenv)
		}
		sr.EnvSetN = len(uenv.sets)
		res.Steps = append(res.Steps, sr)
	}
	if !dead {
		res.Dir = norm(r.Dir)
		res.Params = append([]string{}, r.Params...)
		res.Funcs = map[string]string{}
		for name, body := range r.Funcs {
			var pb bytes.Buffer
			syntax.NewPrinter().Print(&pb, body)
			res.Funcs[name] = pb.String()
		}
		res.Vars = map[string]lcVar{}
		if v.WantVars {
			for name, vr := range r.Vars {
				lv := lcVar{Kind: kindName(vr.Kind), Set: vr.Set, Str: norm(vr.Str), Exported: vr.Exported,
					ReadOnly: vr.ReadOnly, Local: vr.Local, Indexes: vr.Indexes}
				for _, e := range vr.List {
					lv.List = append(lv.List, norm(e))
				}
				if vr.Map != nil {
					lv.Map = map[string]string{}
					for k, e := range vr.Map {
						lv.Map[k] = norm(e)
					}
				}
				res.Vars[name] = lv
			}
		}
	}
	after := envSeq(uenv)
	res.EnvSets = append([]string{}, uenv.sets...)
	res.EnvGets = uenv.gets
	res.EnvEachSame = len(before) == len(after)
	if res.EnvEachSame {
		for i := range before {
			if before[i] != after[i] {
				res.EnvEachSame = false
			}
		}
	}
	if !res.EnvEachSame {
		res.EnvBefore, res.EnvAfter = before, after
	}
	return res
}
