package main

import (
	"bytes"
	"encoding/json"
	"fmt"
	"io"
	"reflect"
	"testing/iotest"

	"mvdan.cc/sh/v3/syntax"
	"verif/harness/hlib"
)

// engine "seq" (C08 a): {"srcs": [latin1 ...] (one program under several layouts), "langs": [...], "t": spec tree (optional)}
// For every variant in which Parse accepts src: the statements yielded by Parser.StmtsSeq (and by
// the deprecated wrapper Parser.Stmts) must be deep-equal -- positions and comments included -- to
// Parse's File.Stmts, for three ways of delivering the bytes (all at once, one byte per Read, one
// line per Read), with and without KeepComments, and when the consumer breaks out after k
// statements (every k): the k statements seen are Parse's first k.  When the spec tree t is given
// and the variant is one where the spec says the program is valid, the Abs projection of the
// yielded statements must also equal t.Stmts (expected value from spec/ShSyntax.tla).
func init() { hlib.Register("seq", seqEngine) }

type seqFail struct {
	Lang   string `json:"lang"`
	Kind   string `json:"kind"`
	Mode   string `json:"mode"`
	Detail string `json:"detail"`
	Item   int    `json:"item"`
}

func readerFor(mode string, src []byte) io.Reader {
	switch mode {
	case "byte":
		return iotest.OneByteReader(bytes.NewReader(src))
	case "line":
		var ev [][]int
		return &lineReader{lines: splitLines(src), ev: &ev}
	}
	return bytes.NewReader(src)
}

func seqEngine(raw json.RawMessage, _ []string) (any, error) {
	var v struct {
		Srcs  []string `json:"srcs"` // the same program under several layouts
		Langs []string `json:"langs"`
		Valid []string `json:"valid"`
		T     any      `json:"t"`
		Full  bool     `json:"full"` // all reader modes also without comments (thorough tier)
	}
	if err := json.Unmarshal(raw, &v); err != nil {
		return nil, err
	}
	valid := map[string]bool{}
	for _, l := range v.Valid {
		valid[l] = true
	}
	var specStmts any
	if m, ok := v.T.(map[string]any); ok {
		specStmts = m["Stmts"]
	}
	var fails []seqFail
	runs, parsed, specChecked := 0, 0, 0
	item := 0
	add := func(ln, kind, mode, detail string) {
		if len(fails) < 12 {
			fails = append(fails, seqFail{ln, kind, mode, detail, item})
		}
	}
	for si, s := range v.Srcs {
		item = si
		src := hlib.Unlatin1(s)
		for _, ln := range v.Langs {
			lang := hlib.LangOf(ln)
			for _, keep := range []bool{true, false} {
				opts := []syntax.ParserOption{syntax.Variant(lang), syntax.KeepComments(keep)}
				full, err := syntax.NewParser(opts...).Parse(bytes.NewReader(src), "")
				runs++
				if err != nil {
					continue
				}
				parsed++
				parseMatchesSpec := specStmts != nil && valid[ln] && reflect.DeepEqual(normJSON(Abs(full.Stmts)), specStmts)
				modes := []string{"whole", "byte", "line"}
				if !keep && !v.Full {
					modes = modes[:1]
				}
				for _, mode := range modes {
					tag := mode
					if !keep {
						tag += "+nocomments"
					}
					// ---- complete iteration
					var got []*syntax.Stmt
					var gerr error
					var atYield [][]byte // whole+comments only: what each statement looked like when it was yielded
					for s, err := range syntax.NewParser(opts...).StmtsSeq(readerFor(mode, src)) {
						if err != nil {
							gerr = err
							break
						}
						got = append(got, s)
						if mode == "whole" && keep {
							b, _ := json.Marshal(AbsPos(s))
							atYield = append(atYield, b)
						}
					}
					runs++
					for i, b := range atYield {
						// a consumer that uses the statement inside the loop body must see the finished statement
						if now, _ := json.Marshal(AbsPos(got[i])); !bytes.Equal(b, now) {
							add(ln, "seq-mutated-after-yield", tag, sigTreeDiff(normJSON(AbsPos(got[i])), jsonValue(b)))
							break
						}
					}
					if gerr != nil {
						add(ln, "seq-error", tag, gerr.Error())
						continue
					}
					if d := diffStmts(full.Stmts, got); d != "" {
						add(ln, "seq-differs", tag, d)
					}
					if parseMatchesSpec {
						specChecked++
						if a := normJSON(Abs(got)); !reflect.DeepEqual(a, specStmts) {
							add(ln, "seq-differs-from-spec", tag, sigTreeDiff(specStmts, a))
						}
					}
					// ---- the deprecated callback wrapper
					var got2 []*syntax.Stmt
					err := syntax.NewParser(opts...).Stmts(readerFor(mode, src), func(s *syntax.Stmt) bool {
						got2 = append(got2, s)
						return true
					})
					runs++
					if err != nil {
						add(ln, "stmts-error", tag, err.Error())
					} else if d := diffStmts(full.Stmts, got2); d != "" {
						add(ln, "stmts-differs", tag, d)
					}
					// ---- early break after k statements
					for k := 1; k <= len(full.Stmts); k++ {
						var pre []*syntax.Stmt
						var perr error
						for s, err := range syntax.NewParser(opts...).StmtsSeq(readerFor(mode, src)) {
							if err != nil {
								perr = err
								break
							}
							pre = append(pre, s)
							if len(pre) == k {
								break
							}
						}
						runs++
						if perr != nil {
							add(ln, "seq-break-error", tag, fmt.Sprintf("k=%d: %v", k, perr))
						} else if d := diffStmts(full.Stmts[:k], pre); d != "" {
							add(ln, "seq-break-differs", tag, fmt.Sprintf("k=%d: %s", k, d))
						}
					}
				}
			}
		}
	}
	return map[string]any{"fails": fails, "runs": runs, "parsed": parsed, "spec_checked": specChecked}, nil
}

func diffStmts(want, got []*syntax.Stmt) string {
	if len(want) != len(got) {
		return fmt.Sprintf("%d statements yielded, Parse has %d", len(got), len(want))
	}
	for i := range want {
		if !reflect.DeepEqual(want[i], got[i]) {
			return "statement differs: " + sigTreeDiff(AbsPos(want[i]), AbsPos(got[i]))
		}
	}
	return ""
}

func jsonValue(b []byte) any {
	var out any
	if json.Unmarshal(b, &out) != nil {
		return nil
	}
	return out
}

// normJSON round-trips a value through encoding/json so that it compares with decoded vectors.
func normJSON(v any) any {
	b, err := json.Marshal(v)
	if err != nil {
		return nil
	}
	var out any
	if json.Unmarshal(b, &out) != nil {
		return nil
	}
	return out
}
