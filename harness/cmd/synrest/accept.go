package main

import (
	"bytes"
	"encoding/json"
	"strings"

	"mvdan.cc/sh/v3/syntax"
	"verif/harness/hlib"
)

// engine "accept" (C12): {"src": latin1, "langs": [...]} -> per variant whether syntax.Parser accepts
// the source, and if not the error text and its signature (message without position + the text at
// the position, identifiers abstracted).
func init() { hlib.Register("accept", acceptEngine) }

func acceptEngine(raw json.RawMessage, _ []string) (any, error) {
	var v struct {
		Src   string   `json:"src"`
		Langs []string `json:"langs"`
	}
	if err := json.Unmarshal(raw, &v); err != nil {
		return nil, err
	}
	src := hlib.Unlatin1(v.Src)
	out := map[string]any{}
	for _, ln := range v.Langs {
		_, err := syntax.NewParser(syntax.Variant(hlib.LangOf(ln))).Parse(bytes.NewReader(src), "")
		if err == nil {
			out[ln] = map[string]any{"ok": true}
			continue
		}
		class := "rejected"
		if strings.Contains(err.Error(), "unclosed here-document") {
			class = "unclosed-heredoc"
		}
		out[ln] = map[string]any{"ok": false, "err": err.Error(), "sig": sigParseError(err.Error(), string(src)),
			"incomplete": syntax.IsIncomplete(err), "class": class}
	}
	return out, nil
}
