package main

import (
	"bytes"
	"encoding/json"
	"fmt"
	"io"
	"reflect"

	"mvdan.cc/sh/v3/syntax"
	"verif/harness/hlib"
)

// engine "inter" (C08 b): {"src": latin1, "langs": [...], "cont": [line numbers that end in a
// backslash-newline continuation, from the renderer]}
// For every variant: feed src to the real Parser.InteractiveSeq through a reader that hands over
// exactly one line per Read (what a blocking pipe delivers when the writer types line by line),
// record the externally observable events
//     [0, i, 0]        the parser asked for more input and got line i
//     [2, 0, 0]        the parser asked for more input and got io.EOF
//     [1, n, inc, err] the consumer was called back with n statements, Parser.Incomplete()=inc,
//                      err != nil
// and return them together with the per-line annotation needed by spec/ShInteractiveTrace.tla:
//     open[i]  a statement is unfinished after line i  (prefix i does not parse: IsIncomplete; or
//              line i ends in a continuation)
//     done[i]  number of top-level statements that are complete after line i
// The annotation comes from Parse on the line prefixes (the C10 oracle) and from the statement end
// offsets of Parse on the whole source; where both define done[i] they must agree, otherwise the
// vector is returned as "unannotated" (no verdict).
// Also compared here (plain comparison): the statements handed over in the complete callbacks are
// deep-equal (positions and comments included) to Parse's statements.
func init() { hlib.Register("inter", interEngine) }

type lineReader struct {
	lines [][]byte
	next  int
	rest  []byte
	ev    *[][]int
}

func (l *lineReader) Read(p []byte) (int, error) {
	if len(l.rest) > 0 { // a line longer than the parser's buffer space: hand over the remainder
		n := copy(p, l.rest)
		l.rest = l.rest[n:]
		return n, nil
	}
	if l.next >= len(l.lines) {
		*l.ev = append(*l.ev, []int{2, 0, 0, 0})
		return 0, io.EOF
	}
	ln := l.lines[l.next]
	l.next++
	*l.ev = append(*l.ev, []int{0, l.next, 0, 0})
	n := copy(p, ln)
	l.rest = ln[n:]
	return n, nil
}

func splitLines(src []byte) [][]byte {
	var out [][]byte
	for len(src) > 0 {
		i := bytes.IndexByte(src, '\n')
		if i < 0 {
			out = append(out, src)
			break
		}
		out = append(out, src[:i+1])
		src = src[i+1:]
	}
	return out
}

func b2i(b bool) int {
	if b {
		return 1
	}
	return 0
}

type interFail struct {
	Lang   string `json:"lang"`
	Kind   string `json:"kind"`
	Detail string `json:"detail"`
}

type interTrace struct {
	Lang        string  `json:"lang"`
	Open        []int   `json:"open"`
	Done        []int   `json:"done"`
	Total       int     `json:"total"`
	Ev          [][]int `json:"ev"`
	Unannotated string  `json:"unannotated,omitempty"`
}

func parseWith(src []byte, lang syntax.LangVariant, opts ...syntax.ParserOption) (*syntax.File, error) {
	opts = append([]syntax.ParserOption{syntax.Variant(lang)}, opts...)
	return syntax.NewParser(opts...).Parse(bytes.NewReader(src), "")
}

func interEngine(raw json.RawMessage, _ []string) (any, error) {
	var v struct {
		Src   string   `json:"src"`
		Langs []string `json:"langs"`
		Cont  []int    `json:"cont"`
		Stop  int      `json:"stop"` // >0: the consumer returns false at its stop-th callback
	}
	if err := json.Unmarshal(raw, &v); err != nil {
		return nil, err
	}
	src := hlib.Unlatin1(v.Src)
	lines := splitLines(src)
	cont := map[int]bool{}
	for _, c := range v.Cont {
		cont[c] = true
	}
	var fails []interFail
	var traces []interTrace
	for _, ln := range v.Langs {
		lang := hlib.LangOf(ln)
		full, err := parseWith(src, lang, syntax.KeepComments(true))
		if err != nil {
			fails = append(fails, interFail{ln, "parse-error", err.Error()})
			continue
		}
		tr := interTrace{Lang: ln, Total: len(full.Stmts)}
		// ---- annotation
		off := 0
		for i, l := range lines {
			off += len(l)
			byPos := 0
			for _, s := range full.Stmts {
				if int(s.End().Offset()) <= off {
					byPos++
				}
			}
			pf, perr := parseWith(src[:off], lang, syntax.KeepComments(true))
			switch {
			case perr == nil && !cont[i+1]:
				if len(pf.Stmts) != byPos {
					tr.Unannotated = fmt.Sprintf("line %d: prefix has %d statements, %d end before it in the whole parse", i+1, len(pf.Stmts), byPos)
				}
				tr.Open = append(tr.Open, 0)
				tr.Done = append(tr.Done, len(pf.Stmts))
			case perr == nil || syntax.IsIncomplete(perr):
				tr.Open = append(tr.Open, 1)
				tr.Done = append(tr.Done, byPos)
			default:
				tr.Unannotated = fmt.Sprintf("line %d: prefix fails with a complete error: %v", i+1, perr)
				tr.Open = append(tr.Open, 0)
				tr.Done = append(tr.Done, byPos)
			}
		}
		// ---- the real thing
		p := syntax.NewParser(syntax.Variant(lang), syntax.KeepComments(true))
		rd := &lineReader{lines: lines, ev: &tr.Ev}
		var delivered []*syntax.Stmt
		ncb := 0
		for stmts, err := range p.InteractiveSeq(rd) {
			inc := p.Incomplete()
			tr.Ev = append(tr.Ev, []int{1, len(stmts), b2i(inc), b2i(err != nil)})
			if err != nil {
				fails = append(fails, interFail{ln, "interactive-error", err.Error()})
				break
			}
			if !inc {
				// the slice is reused by the parser after the callback returns: copy now
				delivered = append(delivered, stmts...)
			}
			ncb++
			if v.Stop > 0 && ncb >= v.Stop {
				break
			}
		}
		if v.Stop == 0 {
			if len(delivered) != len(full.Stmts) {
				fails = append(fails, interFail{ln, "delivered-count", fmt.Sprintf("%d delivered, Parse has %d", len(delivered), len(full.Stmts))})
			} else {
				for i := range delivered {
					if !reflect.DeepEqual(delivered[i], full.Stmts[i]) {
						fails = append(fails, interFail{ln, "delivered-differs",
							fmt.Sprintf("statement %d: %s", i+1, sigTreeDiff(AbsPos(full.Stmts[i]), AbsPos(delivered[i])))})
						break
					}
				}
			}
		} else {
			for i := range delivered {
				if i >= len(full.Stmts) || !reflect.DeepEqual(delivered[i], full.Stmts[i]) {
					fails = append(fails, interFail{ln, "delivered-differs", fmt.Sprintf("statement %d (stopped consumer)", i+1)})
					break
				}
			}
		}
		traces = append(traces, tr)
	}
	return map[string]any{"fails": fails, "traces": traces}, nil
}
