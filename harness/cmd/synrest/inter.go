package main

import (
	"bytes"
	"encoding/json"
	"errors"
	"fmt"
	"io"
	"reflect"

	"mvdan.cc/sh/v3/syntax"
	"verif/harness/hlib"
)

// engine "inter" (C08 b): {"items": [{"src": latin1, "cont": [line numbers that end in a backslash-newline
// continuation, from the renderer], "stops": bool} ...], "langs": [...]}
// For every variant: feed src to the real Parser.InteractiveSeq through a reader that hands over
// exactly one line per Read (what a blocking pipe delivers when the writer types line by line),
// record the externally observable events
//
//	[0, i, 0]        the parser asked for more input and got line i
//	[2, 0, 0]        the parser asked for more input and got io.EOF
//	[1, n, inc, err] the consumer was called back with n statements, Parser.Incomplete()=inc,
//	                 err != nil
//
// and return them together with the per-line annotation needed by spec/ShInteractiveTrace.tla:
//
//	open[i]  a statement is unfinished after line i  (prefix i does not parse: IsIncomplete; or
//	         line i ends in a continuation)
//	done[i]  number of top-level statements that are complete after line i
//
// The annotation comes from Parse on the line prefixes (the C10 oracle) and from the statement end
// offsets of Parse on the whole source; where both define done[i] they must agree, otherwise the
// vector is returned as "unannotated" (no verdict).
// Also compared here (plain comparison): the statements handed over in the complete callbacks are
// deep-equal (positions and comments included) to Parse's statements.  Every source is fed twice:
// with KeepComments(true) and with the parser's default (comments dropped).
func init() { hlib.Register("inter", interEngine) }

type lineReader struct {
	lines [][]byte
	next  int
	rest  []byte
	ev    *[][]int
}

func (l *lineReader) Read(p []byte) (int, error) {
	if len(l.rest) > 0 { // a line longer than the parser's buffer space: hand over the remainder
		n := copy(p, l.rest)
		l.rest = l.rest[n:]
		return n, nil
	}
	if l.next >= len(l.lines) {
		*l.ev = append(*l.ev, []int{2, 0, 0, 0})
		return 0, io.EOF
	}
	ln := l.lines[l.next]
	l.next++
	*l.ev = append(*l.ev, []int{0, l.next, 0, 0})
	n := copy(p, ln)
	l.rest = ln[n:]
	return n, nil
}

func splitLines(src []byte) [][]byte {
	var out [][]byte
	for len(src) > 0 {
		i := bytes.IndexByte(src, '\n')
		if i < 0 {
			out = append(out, src)
			break
		}
		out = append(out, src[:i+1])
		src = src[i+1:]
	}
	return out
}

func b2i(b bool) int {
	if b {
		return 1
	}
	return 0
}

type interFail struct {
	Lang   string `json:"lang"`
	Kind   string `json:"kind"`
	Detail string `json:"detail"`
	Note   string `json:"note,omitempty"`
	Item   int    `json:"item"`
}

type interTrace struct {
	Lang        string  `json:"lang"`
	Open        []int   `json:"open"`
	Done        []int   `json:"done"`
	Dash        []int   `json:"dash"` // line i is a body line of a `<<-` here-document (narrows a named deviation)
	Total       int     `json:"total"`
	Stop        int     `json:"stop"`
	NoComments  int     `json:"nocomments"` // 1: recorded with KeepComments(false), the parser's default
	Ev          [][]int `json:"ev"`
	Unannotated string  `json:"unannotated,omitempty"`
	Item        int     `json:"item"`
}

func parseWith(src []byte, lang syntax.LangVariant, opts ...syntax.ParserOption) (*syntax.File, error) {
	opts = append([]syntax.ParserOption{syntax.Variant(lang)}, opts...)
	return syntax.NewParser(opts...).Parse(bytes.NewReader(src), "")
}

func interEngine(raw json.RawMessage, _ []string) (any, error) {
	var job struct {
		Items []struct {
			Src   string `json:"src"`
			Cont  []int  `json:"cont"`
			Stops bool   `json:"stops"` // also: for every k, a consumer that returns false from its k-th callback
		} `json:"items"` // one program under several layouts
		Langs []string `json:"langs"`
	}
	if err := json.Unmarshal(raw, &job); err != nil {
		return nil, err
	}
	var fails []interFail
	var traces []interTrace
	for item, v := range job.Items {
		src := hlib.Unlatin1(v.Src)
		lines := splitLines(src)
		cont := map[int]bool{}
		for _, c := range v.Cont {
			cont[c] = true
		}
		nf, nt := len(fails), len(traces)
		for _, ln := range job.Langs {
			lang := hlib.LangOf(ln)
			full, err := parseWith(src, lang, syntax.KeepComments(true))
			if err != nil {
				fails = append(fails, interFail{Lang: ln, Kind: "parse-error", Detail: err.Error()})
				continue
			}
			tr := interTrace{Lang: ln, Total: len(full.Stmts)}
			// ---- annotation
			byPos := func(off int) (n int) {
				for _, s := range full.Stmts {
					if int(s.End().Offset()) <= off {
						n++
					}
				}
				return n
			}
			dash := dashHdocLines(full)
			off := 0
			for i, l := range lines {
				off += len(l)
				tr.Dash = append(tr.Dash, b2i(dash[i+1]))
				if cont[i+1] {
					// a continuation line (the renderer says so): the statement it belongs to ends later,
					// whatever a parser makes of the prefix taken as a whole file
					tr.Open = append(tr.Open, 1)
					tr.Done = append(tr.Done, byPos(off))
					continue
				}
				pf, perr := parseWith(src[:off], lang, syntax.KeepComments(true))
				switch {
				case perr == nil:
					if len(pf.Stmts) != byPos(off) {
						tr.Unannotated = fmt.Sprintf("line %d: prefix has %d statements, %d end before it in the whole parse", i+1, len(pf.Stmts), byPos(off))
					}
					tr.Open = append(tr.Open, 0)
					tr.Done = append(tr.Done, len(pf.Stmts))
				case syntax.IsIncomplete(perr):
					// the error points into the unfinished statement: everything that ends before
					// that point is finished (a statement's End does not cover its here-document
					// bodies, so the end of the prefix cannot be used here)
					at := off
					var pe syntax.ParseError
					if errors.As(perr, &pe) && pe.Pos.IsValid() {
						at = int(pe.Pos.Offset())
					}
					tr.Open = append(tr.Open, 1)
					tr.Done = append(tr.Done, byPos(at))
				default:
					tr.Unannotated = fmt.Sprintf("line %d: prefix fails with a complete error: %v", i+1, perr)
					tr.Open = append(tr.Open, 0)
					tr.Done = append(tr.Done, byPos(off))
				}
			}
			// The number of finished statements cannot decrease.  Where the estimate for an OPEN line is
			// too high (a statement whose here-document body is still being read ends, by its End(),
			// before the body), a later line corrects it: take the minimum over the rest of the file.
			for i := len(tr.Done) - 2; i >= 0; i-- {
				if tr.Done[i] > tr.Done[i+1] {
					if tr.Open[i] == 0 && tr.Unannotated == "" {
						tr.Unannotated = fmt.Sprintf("line %d: %d statements finished, but only %d after the next line", i+1, tr.Done[i], tr.Done[i+1])
					}
					tr.Done[i] = tr.Done[i+1]
				}
			}
			// ---- the real thing
			type runRes struct {
				ev        [][]int
				delivered []*syntax.Stmt
				ncb       int
				errText   string
				panicText string
			}
			keep := true
			run := func(stop int) (r runRes) {
				defer func() {
					if e := recover(); e != nil {
						r.panicText = panicText(e)
					}
				}()
				p := syntax.NewParser(syntax.Variant(lang), syntax.KeepComments(keep))
				rd := &lineReader{lines: lines, ev: &r.ev}
				for stmts, err := range p.InteractiveSeq(rd) {
					inc := p.Incomplete()
					r.ev = append(r.ev, []int{1, len(stmts), b2i(inc), b2i(err != nil)})
					if err != nil {
						r.errText = err.Error()
						break
					}
					if !inc {
						// the slice is reused by the parser after the callback returns: copy now
						r.delivered = append(r.delivered, stmts...)
					}
					r.ncb++
					if stop > 0 && r.ncb >= stop {
						break
					}
				}
				return r
			}
			check := func(r runRes, stop int) {
				tag := ""
				if stop > 0 {
					tag = fmt.Sprintf(" (consumer stops at callback %d)", stop)
				}
				full := full
				if !keep {
					tag += " (KeepComments off)"
					if f2, err := parseWith(src, lang); err == nil {
						full = f2
					}
				}
				if r.panicText != "" {
					where := "after the end of input"
					if stop > 0 && len(r.ev) > 0 {
						last := r.ev[len(r.ev)-1]
						where = "consumer stopped in a callback for finished statements"
						if last[0] == 1 && last[2] == 1 {
							where = "consumer stopped in an Incomplete callback"
						} else if last[0] == 1 && last[1] == 0 {
							where = "consumer stopped in an empty callback"
						}
					}
					fails = append(fails, interFail{Lang: ln, Kind: "panic", Detail: where + ": " + r.panicText, Note: tag})
					return
				}
				if r.errText != "" {
					fails = append(fails, interFail{Lang: ln, Kind: "interactive-error", Detail: r.errText, Note: tag})
				}
				if stop == 0 && len(r.delivered) != len(full.Stmts) {
					fails = append(fails, interFail{Lang: ln, Kind: "delivered-count", Detail: fmt.Sprintf("%d delivered, Parse has %d", len(r.delivered), len(full.Stmts))})
					return
				}
				for i := range r.delivered {
					if i >= len(full.Stmts) || !reflect.DeepEqual(r.delivered[i], full.Stmts[i]) {
						d := "more statements than Parse has"
						if i < len(full.Stmts) {
							d = sigTreeDiff(AbsPos(full.Stmts[i]), AbsPos(r.delivered[i]))
						}
						fails = append(fails, interFail{Lang: ln, Kind: "delivered-differs", Detail: d, Note: tag})
						break
					}
				}
			}
			r0 := run(0)
			check(r0, 0)
			tr.Ev = r0.ev
			if r0.panicText != "" {
				tr.Unannotated = "panic"
			}
			traces = append(traces, tr)
			// the default parser (comments dropped) must behave the same towards reader and consumer:
			// same annotation, its own trace
			keep = false
			rn := run(0)
			check(rn, 0)
			if rn.panicText == "" {
				tn := tr
				tn.Ev, tn.NoComments = rn.ev, 1
				traces = append(traces, tn)
			}
			keep = true
			if v.Stops {
				for k := 1; k <= r0.ncb; k++ {
					rk := run(k)
					check(rk, k)
					if rk.panicText == "" {
						ts := tr
						ts.Ev, ts.Stop = rk.ev, k
						traces = append(traces, ts)
					}
				}
			}
		}
		for i := nf; i < len(fails); i++ {
			fails[i].Item = item
		}
		for i := nt; i < len(traces); i++ {
			traces[i].Item = item
		}
	}
	return map[string]any{"fails": fails, "traces": traces}, nil
}

// dashHdocLines returns the set of source lines that are body lines of a `<<-` here-document.
// It walks the tree by reflection (syntax.Walk is under test elsewhere).
func dashHdocLines(f *syntax.File) map[int]bool {
	out := map[int]bool{}
	var walk func(v reflect.Value)
	walk = func(v reflect.Value) {
		switch v.Kind() {
		case reflect.Interface, reflect.Pointer:
			if !v.IsNil() {
				walk(v.Elem())
			}
		case reflect.Slice:
			for i := 0; i < v.Len(); i++ {
				walk(v.Index(i))
			}
		case reflect.Struct:
			if rd, ok := v.Interface().(syntax.Redirect); ok && rd.Op == syntax.DashHdoc && rd.Hdoc != nil {
				from, to := int(rd.Hdoc.Pos().Line()), int(rd.Hdoc.End().Line())
				for l := from; l < to; l++ {
					out[l] = true
				}
			}
			for i := 0; i < v.NumField(); i++ {
				if v.Type().Field(i).IsExported() {
					walk(v.Field(i))
				}
			}
		}
	}
	walk(reflect.ValueOf(f))
	return out
}
