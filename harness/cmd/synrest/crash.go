package main

import (
	"bytes"
	"encoding/json"
	"fmt"
	"io"
	"os"
	"runtime"
	"strings"
	"sync"
	"sync/atomic"
	"syscall"
	"time"

	"mvdan.cc/sh/v3/syntax"
	"mvdan.cc/sh/v3/syntax/typedjson"
	"verif/harness/hlib"
)

// engine "crash" (C06): {"srcs": [latin1 ...], "linear": bool, "post": bool}
// Every source x entry point (Parse, StmtsSeq, StmtsSeq with a consumer that breaks after the first
// statement, WordsSeq, Words, InteractiveSeq fed one line per Read, Document, Arithmetic) x 5 language
// variants x 4 option rows (KeepComments, StopAt("$$"), RecoverErrors 0|1|5) is called under recover(),
// once on a fresh parser and once on a parser that is reused for all calls of the job.
// With "post", every tree that comes back without an error (also from RecoverErrors) is printed
// with four printer configurations, simplified (on a second parse), walked and typedjson-encoded,
// each under recover().  With "linear", Parse of the source repeated 64x and 512x is timed (best of
// three) and the ratio reported.
// A watchdog goroutine ends the process with a "hang" record (the call, the input, all stacks) when
// one call has used more than 6 s of CPU (or 90 s of wall time); the driver restarts after the source.
func init() { hlib.Register("crash", crashEngine) }

var (
	wdOnce  sync.Once
	wdStart atomic.Int64 // unix nanos when the current call started; 0 = idle
	wdWhat  atomic.Value // string: description of the current call
)

// A call is a hang when this process has burnt hangCPU of CPU time since the call started (the
// machine may be heavily loaded: wall-clock time alone proves nothing), or when it has not come
// back after hangWall (blocked rather than spinning).
const (
	hangCPU  = 6 * time.Second
	hangWall = 90 * time.Second
)

func cpuNow() int64 {
	var ru syscall.Rusage
	if syscall.Getrusage(syscall.RUSAGE_SELF, &ru) != nil {
		return 0
	}
	return ru.Utime.Nano() + ru.Stime.Nano()
}

func watchdog() {
	go func() {
		var seen, cpuBase int64 // the call the watchdog last looked at, and the process CPU time then
		for {
			time.Sleep(250 * time.Millisecond)
			st := wdStart.Load()
			if st == 0 {
				seen = 0
				continue
			}
			if st != seen {
				seen, cpuBase = st, cpuNow()
				continue
			}
			if time.Duration(cpuNow()-cpuBase) > hangCPU || time.Since(time.Unix(0, st)) > hangWall {
				buf := make([]byte, 1<<16)
				n := runtime.Stack(buf, true)
				what, _ := wdWhat.Load().(string)
				rec, _ := json.Marshal(map[string]any{"hang": what, "stack": hlib.TrimStack(string(buf[:n]))})
				os.Stdout.Write(append(rec, '\n'))
				os.Exit(3)
			}
		}
	}()
}

type crashFail struct {
	Src    int    `json:"src"`
	Kind   string `json:"kind"` // panic | slow
	Entry  string `json:"entry"`
	Lang   string `json:"lang"`
	Opts   string `json:"opts"`
	Detail string `json:"detail"`
}

type optRow struct {
	name string
	opts []syntax.ParserOption
}

var optRows = []optRow{
	{"plain", nil},
	{"comments+stopat+recover1", []syntax.ParserOption{syntax.KeepComments(true), syntax.StopAt("$$"), syntax.RecoverErrors(1)}},
	{"comments+recover5", []syntax.ParserOption{syntax.KeepComments(true), syntax.RecoverErrors(5)}},
	{"stopat+recover5", []syntax.ParserOption{syntax.StopAt("$$"), syntax.RecoverErrors(5)}},
}

var printerRows = [][]syntax.PrinterOption{
	nil,
	{syntax.Minify(true)},
	{syntax.SingleLine(true), syntax.Indent(2), syntax.SpaceRedirects(true)},
	{syntax.KeepPadding(true), syntax.BinaryNextLine(true), syntax.SwitchCaseIndent(true), syntax.FunctionNextLine(true)},
}

var entries = []string{"Parse", "StmtsSeq", "StmtsSeq+break", "WordsSeq", "Words", "InteractiveSeq", "Document", "Arithmetic"}

// callEntry runs one entry point and returns the nodes it produced.
func callEntry(entry string, p *syntax.Parser, src []byte) (nodes []syntax.Node) {
	switch entry {
	case "Parse":
		f, err := p.Parse(bytes.NewReader(src), "")
		if f != nil && err == nil {
			nodes = append(nodes, f)
		}
	case "StmtsSeq", "StmtsSeq+break":
		for s, err := range p.StmtsSeq(bytes.NewReader(src)) {
			if s != nil && err == nil {
				nodes = append(nodes, s)
			}
			if entry == "StmtsSeq+break" {
				break
			}
		}
	case "WordsSeq":
		for w, err := range p.WordsSeq(bytes.NewReader(src)) {
			if w != nil && err == nil {
				nodes = append(nodes, w)
			}
		}
	case "Words":
		p.Words(bytes.NewReader(src), func(w *syntax.Word) bool {
			nodes = append(nodes, w)
			return true
		})
	case "InteractiveSeq":
		var ev [][]int
		for stmts, err := range p.InteractiveSeq(&lineReader{lines: splitLines(src), ev: &ev}) {
			if p.Incomplete() || err != nil {
				continue // nothing is handed over
			}
			for _, s := range stmts {
				if s != nil {
					nodes = append(nodes, s)
				}
			}
		}
	case "Document":
		w, err := p.Document(bytes.NewReader(src))
		if w != nil && err == nil {
			nodes = append(nodes, w)
		}
	case "Arithmetic":
		x, err := p.Arithmetic(bytes.NewReader(src))
		if x != nil && err == nil {
			nodes = append(nodes, x)
		}
	}
	return nodes
}

func guarded(what func() string, fn func()) (panicked string) {
	defer func() {
		if r := recover(); r != nil {
			panicked = panicText(r)
		}
		wdStart.Store(0)
	}()
	wdWhat.Store(what())
	wdStart.Store(time.Now().UnixNano())
	fn()
	return ""
}

func postProcess(n syntax.Node, lang syntax.LangVariant) string {
	for _, row := range printerRows {
		syntax.NewPrinter(row...).Print(io.Discard, n)
	}
	syntax.Walk(n, func(syntax.Node) bool { return true })
	typedjson.Encode(io.Discard, n)
	switch n.(type) {
	case *syntax.File, *syntax.Stmt, *syntax.Word:
		syntax.Simplify(n) // mutates: last
		syntax.NewPrinter().Print(io.Discard, n)
	}
	return ""
}

func crashEngine(raw json.RawMessage, _ []string) (any, error) {
	wdOnce.Do(watchdog)
	var v struct {
		Srcs   []string `json:"srcs"`
		Linear bool     `json:"linear"`
		Post   bool     `json:"post"`
	}
	if err := json.Unmarshal(raw, &v); err != nil {
		return nil, err
	}
	var fails []crashFail
	reused := map[string]*syntax.Parser{}
	calls, posts, trees := 0, 0, 0
	var worst float64
	for si, s := range v.Srcs {
		src := hlib.Unlatin1(s)
		what := func(entry, ln, row string) func() string {
			return func() string { return fmt.Sprintf("%s|%s|%s|%q", entry, ln, row, s) }
		}
		for _, ln := range []string{"bash", "posix", "mksh", "bats", "zsh"} {
			lang := hlib.LangOf(ln)
			for _, row := range optRows {
				for _, entry := range entries {
					var nodes []syntax.Node
					calls++
					if pm := guarded(what(entry, ln, row.name), func() {
						opts := append([]syntax.ParserOption{syntax.Variant(lang)}, row.opts...)
						nodes = callEntry(entry, syntax.NewParser(opts...), src)
					}); pm != "" {
						fails = append(fails, crashFail{si, "panic", entry, ln, row.name, pm})
						continue
					}
					// the same call on a parser that has already been through every earlier call of this job
					// (property C08 says reuse is allowed): it must not crash either
					rk := ln + "|" + row.name
					rp := reused[rk]
					if rp == nil {
						opts := append([]syntax.ParserOption{syntax.Variant(lang)}, row.opts...)
						rp = syntax.NewParser(opts...)
						reused[rk] = rp
					}
					calls++
					if pm := guarded(what("reused:"+entry, ln, row.name), func() { callEntry(entry, rp, src) }); pm != "" {
						fails = append(fails, crashFail{si, "panic", "reused:" + entry, ln, row.name, pm})
						delete(reused, rk) // do not go on with an object that crashed
					}
					if !v.Post {
						continue
					}
					for _, n := range nodes {
						trees++
						posts++
						if pm := guarded(what("post:"+entry, ln, row.name), func() { postProcess(n, lang) }); pm != "" {
							fails = append(fails, crashFail{si, "panic", "post:" + entry, ln, row.name, pm})
						}
					}
				}
			}
		}
		if v.Linear && len(src) > 0 {
			best := func(rep int) time.Duration {
				big := bytes.Repeat(src, rep)
				b := time.Duration(1 << 62)
				for k := 0; k < 3; k++ {
					var d time.Duration
					guarded(what("Parse x"+fmt.Sprint(rep), "bash", "plain"), func() {
						t0 := time.Now()
						syntax.NewParser().Parse(bytes.NewReader(big), "")
						d = time.Since(t0)
					})
					if d < b {
						b = d
					}
				}
				return b
			}
			t1, t2 := best(64), best(512)
			calls += 6
			ratio := float64(t2) / float64(t1+time.Microsecond)
			if ratio > worst {
				worst = ratio
			}
			// 8x the input: a linear parser needs about 8x the time.  Quadratic behaviour gives 64x.
			if ratio > 40 && t2 > 30*time.Millisecond {
				fails = append(fails, crashFail{si, "slow", "Parse", "bash", "plain",
					fmt.Sprintf("input x512 takes %.1f times as long as input x64 (%v vs %v)", ratio, t2, t1)})
			}
		}
	}
	if len(fails) > 60 {
		fails = fails[:60]
	}
	return map[string]any{"fails": fails, "calls": calls, "posts": posts, "trees": trees, "worst_ratio": worst}, nil
}

var _ = strings.TrimSpace
