// Command synrest: harness binary for C08 (streaming, interactive, reuse), C12 (acceptance vs shells), C06 (no crash, no hang).
package main

import "verif/harness/hlib"

func main() { hlib.Main() }
