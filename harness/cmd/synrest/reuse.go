package main

import (
	"bytes"
	"encoding/json"
	"errors"
	"fmt"
	"io"
	"os"
	"reflect"
	"regexp"
	"runtime/debug"
	"strings"
	"sync"

	"mvdan.cc/sh/v3/syntax"
	"verif/harness/hlib"
)

// engine "reuse" (C08 c).  The library of exit kinds and the probes come from
// spec/ShParserReuse.tla via the file named by $VERIF_REUSE ({"obj","lib":[kind...],"probes":[kind...]});
// a job is one history emitted by TLC: {"hist": [kind names], "opts": {option: value}}.
// The history is replayed on ONE syntax.Parser / syntax.Printer; then, for every probe, the probe
// is run on that object and on a fresh object built with the job's options, and the two outcomes
// (tree with positions / yielded items / callback events / error text; or printed bytes / error)
// must be equal.  After each probe the history is NOT replayed again: the probes themselves extend
// the history, which only makes the check stronger; a mismatch is then re-examined from scratch
// (history, then this probe alone) and minimised before it is reported.
func init() { hlib.Register("reuse", reuseEngine) }

type kind struct {
	Name string `json:"name"`
	E    string `json:"e"`
	Src  string `json:"src"`
	K    int    `json:"k"`
}

type reuseLib struct {
	Obj    string         `json:"obj"`
	Lib    []kind         `json:"lib"`
	Probes []kind         `json:"probes"`
	Opts0  map[string]int `json:"opts0"`
	byName map[string]kind
}

var (
	reuseOnce sync.Once
	rlib      reuseLib
	rlibErr   error
)

func loadReuseLib() {
	b, err := os.ReadFile(os.Getenv("VERIF_REUSE"))
	if err != nil {
		rlibErr = err
		return
	}
	if err := json.Unmarshal(b, &rlib); err != nil {
		rlibErr = err
		return
	}
	rlib.byName = map[string]kind{}
	for _, k := range rlib.Lib {
		rlib.byName[k.Name] = k
	}
	var keep []kind
	for _, k := range rlib.Probes {
		if rlib.Obj == "printer" && strings.HasPrefix(k.Name, "gen:") {
			// generated programs are printed as files: only those the bash parser accepts can be probes
			if _, err := syntax.NewParser(syntax.KeepComments(true)).Parse(bytes.NewReader(expandSrc(k.Src)), ""); err != nil {
				continue
			}
		}
		keep = append(keep, k)
		rlib.byName[k.Name] = k
	}
	rlib.Probes = keep
}

var bigSrc = func() string {
	var sb strings.Builder
	for i := 0; sb.Len() < 3500; i++ {
		fmt.Fprintf(&sb, "echo line%d 'quoted %d' \"dq $x\" $(sub %d) # c%d\n", i, i, i, i)
		if i%7 == 3 {
			fmt.Fprintf(&sb, "cat <<EOF%d\nbody $y\nEOF%d\n", i, i)
		}
	}
	return sb.String()
}()

func expandSrc(s string) []byte {
	s = strings.ReplaceAll(s, "BIG", bigSrc)
	return []byte(strings.ReplaceAll(s, "BADUTF8", "\xff"))
}

type failingReader struct {
	r    io.Reader
	left int
}

func (f *failingReader) Read(p []byte) (int, error) {
	if f.left <= 0 {
		return 0, errors.New("read failed")
	}
	if len(p) > f.left {
		p = p[:f.left]
	}
	n, err := f.r.Read(p)
	f.left -= n
	return n, err
}

type failingWriter struct {
	buf  bytes.Buffer
	left int
}

func (f *failingWriter) Write(p []byte) (int, error) {
	if len(p) > f.left {
		n := f.left
		f.buf.Write(p[:n])
		f.left = 0
		return n, errors.New("write failed")
	}
	f.left -= len(p)
	return f.buf.Write(p)
}

func errStr(err error) string {
	if err == nil {
		return ""
	}
	return "error: " + err.Error()
}

// ---------------------------------------------------------------- parser uses

type pOutcome struct {
	Items []any    // *File, *Stmt, *Word, ArithmExpr ... in the order produced
	Errs  []string // error texts in the order produced
	Ev    [][]int  // InteractiveSeq: reads and callbacks
	Panic string   // the use panicked (recovered): message and top of the stack
}

var frameRe = regexp.MustCompile(`mvdan\.cc/sh/v3/[A-Za-z0-9_./]+(\(\*?[A-Za-z0-9_]+\))?(\.[A-Za-z0-9_]+)+`)

// panicText: the panic message and the innermost frames inside mvdan/sh (function names only, so
// that the text identifies the call site and does not vary from run to run).
func panicText(r any) string {
	fr := frameRe.FindAllString(string(debug.Stack()), -1)
	var keep []string
	for _, f := range fr {
		f = strings.TrimPrefix(f, "mvdan.cc/sh/v3/")
		if len(keep) == 0 || keep[len(keep)-1] != f {
			keep = append(keep, f)
		}
		if len(keep) == 3 {
			break
		}
	}
	return fmt.Sprint(r) + " @ " + strings.Join(keep, " < ")
}

func parserOption(name string, val int) syntax.ParserOption {
	switch name {
	case "KeepComments":
		return syntax.KeepComments(val != 0)
	case "Variant":
		return syntax.Variant(syntax.LangVariant(val))
	case "StopAt":
		return syntax.StopAt("$$")
	case "RecoverErrors":
		return syntax.RecoverErrors(val)
	}
	panic("unknown parser option " + name)
}

func freshParser(opts map[string]int) *syntax.Parser {
	var os []syntax.ParserOption
	for _, name := range []string{"KeepComments", "Variant", "RecoverErrors", "StopAt"} {
		v, ok := opts[name]
		if !ok || (name == "StopAt" && v == 0) {
			continue
		}
		os = append(os, parserOption(name, v))
	}
	return syntax.NewParser(os...)
}

func useParser(p *syntax.Parser, k kind) (out pOutcome) {
	defer func() {
		if r := recover(); r != nil {
			out.Panic = panicText(r)
		}
	}()
	src := expandSrc(k.Src)
	switch k.E {
	case "opt":
		parserOption(k.Src, k.K)(p)
	case "Parse":
		f, err := p.Parse(bytes.NewReader(src), "")
		out.Items, out.Errs = []any{f}, []string{errStr(err)}
	case "ParseReadErr":
		f, err := p.Parse(&failingReader{bytes.NewReader(src), k.K}, "")
		out.Items, out.Errs = []any{f}, []string{errStr(err)}
	case "StmtsSeq":
		n := 0
		for s, err := range p.StmtsSeq(bytes.NewReader(src)) {
			out.Items, out.Errs = append(out.Items, s), append(out.Errs, errStr(err))
			if n++; n == k.K {
				break
			}
		}
	case "WordsSeq":
		n := 0
		for w, err := range p.WordsSeq(bytes.NewReader(src)) {
			out.Items, out.Errs = append(out.Items, w), append(out.Errs, errStr(err))
			if n++; n == k.K {
				break
			}
		}
	case "InteractiveSeq":
		rd := &lineReader{lines: splitLines(src), ev: &out.Ev}
		n := 0
		for stmts, err := range p.InteractiveSeq(rd) {
			out.Ev = append(out.Ev, []int{1, len(stmts), b2i(p.Incomplete()), b2i(err != nil)})
			out.Items, out.Errs = append(out.Items, append([]*syntax.Stmt(nil), stmts...)), append(out.Errs, errStr(err))
			if n++; n == k.K {
				break
			}
		}
	case "Document":
		w, err := p.Document(bytes.NewReader(src))
		out.Items, out.Errs = []any{w}, []string{errStr(err)}
	case "Arithmetic":
		x, err := p.Arithmetic(bytes.NewReader(src))
		out.Items, out.Errs = []any{x}, []string{errStr(err)}
	default:
		panic("unknown parser entry " + k.E)
	}
	return out
}

func diffOutcome(want, got pOutcome) string {
	if (want.Panic == "") != (got.Panic == "") {
		return fmt.Sprintf("panic %q became %q", want.Panic, got.Panic)
	}
	if !reflect.DeepEqual(want.Errs, got.Errs) {
		return fmt.Sprintf("errors %q became %q", want.Errs, got.Errs)
	}
	if !reflect.DeepEqual(want.Ev, got.Ev) {
		return fmt.Sprintf("events %v became %v", want.Ev, got.Ev)
	}
	if len(want.Items) != len(got.Items) {
		return fmt.Sprintf("%d items became %d", len(want.Items), len(got.Items))
	}
	for i := range want.Items {
		if !reflect.DeepEqual(want.Items[i], got.Items[i]) {
			return fmt.Sprintf("item %d: %s", i+1, sigTreeDiff(AbsPos(want.Items[i]), AbsPos(got.Items[i])))
		}
	}
	return ""
}

// ---------------------------------------------------------------- printer uses

type rOutcome struct {
	Out   string
	Err   string
	Panic string
}

func printerOption(name string, val int) syntax.PrinterOption {
	switch name {
	case "Indent":
		return syntax.Indent(uint(val))
	case "Minify":
		return syntax.Minify(val != 0)
	case "SingleLine":
		return syntax.SingleLine(val != 0)
	case "KeepPadding":
		return syntax.KeepPadding(val != 0)
	case "BinaryNextLine":
		return syntax.BinaryNextLine(val != 0)
	case "SwitchCaseIndent":
		return syntax.SwitchCaseIndent(val != 0)
	case "SpaceRedirects":
		return syntax.SpaceRedirects(val != 0)
	case "FunctionNextLine":
		return syntax.FunctionNextLine(val != 0)
	}
	panic("unknown printer option " + name)
}

func freshPrinter(opts map[string]int) *syntax.Printer {
	var os []syntax.PrinterOption
	for _, name := range []string{"Indent", "Minify", "SingleLine", "KeepPadding", "BinaryNextLine", "SwitchCaseIndent", "SpaceRedirects", "FunctionNextLine"} {
		if v, ok := opts[name]; ok && v != 0 {
			os = append(os, printerOption(name, v))
		}
	}
	return syntax.NewPrinter(os...)
}

var nodeCache sync.Map

// nodeFor parses the kind's source (fresh parser, bash, comments kept) and selects the node to print.
func nodeFor(k kind) syntax.Node {
	if n, ok := nodeCache.Load(k.Name); ok {
		return n.(syntax.Node)
	}
	f, err := syntax.NewParser(syntax.KeepComments(true)).Parse(bytes.NewReader(expandSrc(k.Src)), "")
	if err != nil {
		panic(fmt.Sprintf("printer library kind %s does not parse: %v", k.Name, err))
	}
	var n syntax.Node = f
	firstCall := func() *syntax.CallExpr {
		var ce *syntax.CallExpr
		var find func(v reflect.Value)
		find = func(v reflect.Value) {
			if ce != nil {
				return
			}
			switch v.Kind() {
			case reflect.Interface, reflect.Pointer:
				if v.IsNil() {
					return
				}
				if c, ok := v.Interface().(*syntax.CallExpr); ok {
					ce = c
					return
				}
				find(v.Elem())
			case reflect.Slice:
				for i := 0; i < v.Len(); i++ {
					find(v.Index(i))
				}
			case reflect.Struct:
				for i := 0; i < v.NumField(); i++ {
					if v.Type().Field(i).IsExported() {
						find(v.Field(i))
					}
				}
			}
		}
		find(reflect.ValueOf(f))
		return ce
	}
	switch k.E {
	case "Stmt":
		n = f.Stmts[0]
	case "Command":
		n = f.Stmts[0].Cmd
	case "Word":
		n = firstCall().Args[1]
	case "WordPart":
		n = firstCall().Args[1].Parts[0]
	case "Assign":
		n = firstCall().Assigns[0]
	case "Unsupported":
		n = &syntax.Redirect{Op: syntax.RdrOut, Word: firstCall().Args[0]}
	}
	nodeCache.Store(k.Name, n)
	return n
}

func usePrinter(p *syntax.Printer, k kind) (out rOutcome) {
	defer func() {
		if r := recover(); r != nil {
			out.Panic = panicText(r)
		}
	}()
	switch k.E {
	case "opt":
		printerOption(k.Src, k.K)(p)
	case "FailWriter":
		w := &failingWriter{left: k.K}
		err := p.Print(w, nodeFor(k))
		out = rOutcome{Out: w.buf.String(), Err: errStr(err)}
	default:
		var buf bytes.Buffer
		err := p.Print(&buf, nodeFor(k))
		out = rOutcome{Out: buf.String(), Err: errStr(err)}
	}
	return out
}

// ---------------------------------------------------------------- engine

type reuseFail struct {
	Probe   string   `json:"probe"`
	Hist    []string `json:"hist"`
	MinHist []string `json:"minhist"`
	Detail  string   `json:"detail"`
}

// mismatch replays hist on a new object, runs the probe, and compares with a fresh object.
func mismatch(hist []string, probe kind) string {
	opts := map[string]int{}
	for k, v := range rlib.Opts0 {
		opts[k] = v
	}
	if rlib.Obj == "parser" {
		p := syntax.NewParser()
		for _, h := range hist {
			k := rlib.byName[h]
			if k.E == "opt" {
				opts[k.Src] = k.K // diagnosis only: the verdict path uses the options emitted by TLC
			}
			useParser(p, k)
		}
		return diffOutcome(useParser(freshParser(opts), probe), useParser(p, probe))
	}
	p := syntax.NewPrinter()
	for _, h := range hist {
		k := rlib.byName[h]
		if k.E == "opt" {
			opts[k.Src] = k.K
		}
		usePrinter(p, k)
	}
	return diffPrint(usePrinter(freshPrinter(opts), probe), usePrinter(p, probe))
}

func diffPrint(want, got rOutcome) string {
	if want.Out != got.Out || want.Err != got.Err || (want.Panic == "") != (got.Panic == "") {
		return fmt.Sprintf("fresh (%q, %q, %q) reused (%q, %q, %q)", clip(want.Out), want.Err, clip(want.Panic), clip(got.Out), got.Err, clip(got.Panic))
	}
	return ""
}

func clip(s string) string {
	if len(s) > 160 {
		return s[:160] + "..."
	}
	return s
}

func reuseEngine(raw json.RawMessage, _ []string) (any, error) {
	reuseOnce.Do(loadReuseLib)
	if rlibErr != nil {
		return nil, rlibErr
	}
	var v struct {
		Hist []string       `json:"hist"`
		Opts map[string]int `json:"opts"`
	}
	if err := json.Unmarshal(raw, &v); err != nil {
		return nil, err
	}
	for _, h := range v.Hist {
		if _, ok := rlib.byName[h]; !ok {
			return nil, fmt.Errorf("unknown kind %q", h)
		}
	}
	var fails []reuseFail
	evals := 0
	report := func(probe kind, detail string) {
		// re-examine from scratch and minimise the history (drop uses while the mismatch stays)
		h := append([]string(nil), v.Hist...)
		d := mismatch(h, probe)
		if d == "" {
			// only reproducible after the earlier probes of this job: report the whole sequence
			fails = append(fails, reuseFail{probe.Name, v.Hist, append(append([]string(nil), v.Hist...), "(earlier probes)"), detail})
			return
		}
		for i := 0; i < len(h); {
			try := append(append([]string(nil), h[:i]...), h[i+1:]...)
			if d2 := mismatch(try, probe); d2 != "" {
				h, d = try, d2
			} else {
				i++
			}
		}
		fails = append(fails, reuseFail{probe.Name, v.Hist, h, d})
	}
	panics := map[string]string{}
	notePanic := func(k kind, msg string) {
		if msg != "" {
			if _, ok := panics[k.Name]; !ok {
				panics[k.Name] = msg
			}
		}
	}
	tainted := false // a use of the history panicked: what follows is reuse after a crash (no verdict on it)
	if rlib.Obj == "parser" {
		replay := func() *syntax.Parser {
			p := syntax.NewParser()
			for _, h := range v.Hist {
				if o := useParser(p, rlib.byName[h]); o.Panic != "" {
					notePanic(rlib.byName[h], o.Panic)
					tainted = true
				}
			}
			return p
		}
		p := replay()
		for _, probe := range rlib.Probes {
			evals++
			want, got := useParser(freshParser(v.Opts), probe), useParser(p, probe)
			notePanic(probe, want.Panic)
			if d := diffOutcome(want, got); d != "" && !tainted && len(fails) < 8 {
				report(probe, d)
			}
			if got.Panic != "" {
				p = replay() // do not go on with an object that crashed
			}
		}
	} else {
		replay := func() *syntax.Printer {
			p := syntax.NewPrinter()
			for _, h := range v.Hist {
				if o := usePrinter(p, rlib.byName[h]); o.Panic != "" {
					notePanic(rlib.byName[h], o.Panic)
					tainted = true
				}
			}
			return p
		}
		p := replay()
		for _, probe := range rlib.Probes {
			evals++
			want, got := usePrinter(freshPrinter(v.Opts), probe), usePrinter(p, probe)
			notePanic(probe, want.Panic)
			if d := diffPrint(want, got); d != "" && !tainted && len(fails) < 8 {
				report(probe, d)
			}
			if got.Panic != "" {
				p = replay()
			}
		}
	}
	return map[string]any{"evals": evals, "fails": fails, "panics": panics, "tainted": tainted}, nil
}
