package main

import (
	"fmt"
	"reflect"

	"mvdan.cc/sh/v3/syntax"
)

// Abs projects a real syntax node onto the abstract tree shape of spec/ShSyntax.tla:
// an object per node with "k" = Go type name and the exported fields by name; positions,
// comments and zero values are omitted; operators are their source spelling.
// It is an independent reflection walk: it uses neither syntax.Walk (C14) nor typedjson (C15).

var (
	posType     = reflect.TypeOf(syntax.Pos{})
	commentType = reflect.TypeOf(syntax.Comment{})
	stringerT   = reflect.TypeOf((*fmt.Stringer)(nil)).Elem()
)

func Abs(n any) any {
	return absValue(reflect.ValueOf(n), false)
}

// AbsPos is Abs with every position (as "offset:line:col") and the comments kept; it is used to
// say where two trees that reflect.DeepEqual calls different do differ.
func AbsPos(n any) any {
	return absValue(reflect.ValueOf(n), true)
}

func absValue(v reflect.Value, withPos bool) any {
	switch v.Kind() {
	case reflect.Interface, reflect.Pointer:
		if v.IsNil() {
			return nil
		}
		return absValue(v.Elem(), withPos)
	case reflect.Struct:
		t := v.Type()
		if t == posType {
			if withPos {
				p := v.Interface().(syntax.Pos)
				return fmt.Sprintf("@%d:%d:%d", p.Offset(), p.Line(), p.Col())
			}
			return nil
		}
		if t == commentType && !withPos {
			return nil
		}
		obj := map[string]any{"k": t.Name()}
		if rd, ok := v.Interface().(syntax.Redirect); ok && !withPos && rd.Op == syntax.DashHdoc && rd.Hdoc != nil {
			// `<<-` strips leading tabs of every body line when the script runs, and the printer
			// re-indents such bodies (documented cosmetic rewrite): compare modulo leading tabs.
			v = reflect.ValueOf(stripHdocTabs(rd))
		}
		for i := 0; i < t.NumField(); i++ {
			f := t.Field(i)
			if !f.IsExported() {
				continue
			}
			fv := v.Field(i)
			if fv.Type() == posType && !withPos {
				continue
			}
			if fv.Kind() == reflect.Slice && fv.Type().Elem() == commentType && !withPos {
				continue
			}
			if fv.IsZero() {
				continue
			}
			if a := absValue(fv, withPos); a != nil {
				obj[f.Name] = a
			}
		}
		return obj
	case reflect.Slice:
		if v.Len() == 0 {
			return nil
		}
		out := make([]any, 0, v.Len())
		for i := 0; i < v.Len(); i++ {
			out = append(out, absValue(v.Index(i), withPos))
		}
		return out
	case reflect.String:
		return v.String()
	case reflect.Bool:
		return v.Bool()
	default:
		// operators and other small integer types: source spelling
		if v.Type().Implements(stringerT) {
			return v.Interface().(fmt.Stringer).String()
		}
		if v.CanInt() {
			return float64(v.Int())
		}
		if v.CanUint() {
			return float64(v.Uint())
		}
		return fmt.Sprint(v.Interface())
	}
}

func stripHdocTabs(rd syntax.Redirect) syntax.Redirect {
	w := *rd.Hdoc
	w.Parts = append([]syntax.WordPart(nil), w.Parts...)
	startOfLine := true
	for i, p := range w.Parts {
		lit, ok := p.(*syntax.Lit)
		if !ok {
			startOfLine = false
			continue
		}
		var sb []byte
		for j := 0; j < len(lit.Value); j++ {
			c := lit.Value[j]
			if c == '\t' && startOfLine {
				continue
			}
			startOfLine = c == '\n'
			sb = append(sb, c)
		}
		l2 := *lit
		l2.Value = string(sb)
		w.Parts[i] = &l2
	}
	rd.Hdoc = &w
	return rd
}
