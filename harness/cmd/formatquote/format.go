package main

import (
	"encoding/json"
	"verif/harness/hlib"

	"mvdan.cc/sh/v3/expand"
)

// C24: one vector = (format, args), text as arrays of 1-char strings (hlib.Text).
// The engine calls the real expand.Format once (one pass over the format) and reports
// output bytes, number of consumed arguments and whether an error was returned.
// The printf/echo builtins are exercised through the generic "interp" engine.
func init() { hlib.Register("format", formatEngine) }

type formatVec struct {
	Fmt  []any   `json:"fmt"`
	Args [][]any `json:"args"`
	// NoArgs: call Format with args == nil (the way `echo -e` and %b use it: escapes only)
	NoArgs bool `json:"noargs"`
}

func bytesOf(s string) []int {
	out := make([]int, len(s))
	for i := 0; i < len(s); i++ {
		out[i] = int(s[i])
	}
	return out
}

func formatEngine(raw json.RawMessage, _ []string) (any, error) {
	var v formatVec
	if err := json.Unmarshal(raw, &v); err != nil {
		return nil, err
	}
	format := hlib.Text(v.Fmt)
	var args []string
	if !v.NoArgs {
		args = make([]string, len(v.Args))
		for i, a := range v.Args {
			args[i] = hlib.Text(a)
		}
	}
	s, n, err := expand.Format(nil, format, args)
	res := map[string]any{"out": bytesOf(s), "n": n, "err": err != nil}
	if err != nil {
		res["errmsg"] = err.Error()
	}
	return res, nil
}
