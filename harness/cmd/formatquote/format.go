package main

import (
	"bytes"
	"context"
	"encoding/json"
	"strings"
	"time"
	"verif/harness/hlib"

	"mvdan.cc/sh/v3/expand"
	"mvdan.cc/sh/v3/interp"
	"mvdan.cc/sh/v3/syntax"
)

// C24: one vector = (format, args), text as arrays of 1-char strings (hlib.Text).
// The engine calls the real expand.Format once (one pass over the format) and reports
// output bytes, number of consumed arguments and whether an error was returned.
// The printf/echo builtins are exercised through the generic "interp" engine.
func init() { hlib.Register("format", formatEngine) }

type formatVec struct {
	Fmt  []any   `json:"fmt"`
	Args [][]any `json:"args"`
	// NoArgs: call Format with args == nil (the way `echo -e` and %b use it: escapes only)
	NoArgs bool `json:"noargs"`
}

func bytesOf(s string) []int {
	out := make([]int, len(s))
	for i := 0; i < len(s); i++ {
		out[i] = int(s[i])
	}
	return out
}

func formatEngine(raw json.RawMessage, _ []string) (any, error) {
	var v formatVec
	if err := json.Unmarshal(raw, &v); err != nil {
		return nil, err
	}
	format := hlib.Text(v.Fmt)
	var args []string
	if !v.NoArgs {
		args = make([]string, len(v.Args))
		for i, a := range v.Args {
			args[i] = hlib.Text(a)
		}
	}
	s, n, err := expand.Format(nil, format, args)
	res := map[string]any{"out": bytesOf(s), "n": n, "err": err != nil}
	if err != nil {
		res["errmsg"] = err.Error()
	}
	return res, nil
}

// "sh": run a short script (a printf/echo command line; latin-1 text of the source bytes) in a
// fresh Runner with the process's working directory; like the generic "interp" engine but
// without creating a directory per script (printf and echo never touch the file system).
func init() { hlib.Register("sh", shEngine) }

func shEngine(raw json.RawMessage, _ []string) (res any, err error) {
	var v hlib.InterpVec
	if err := json.Unmarshal(raw, &v); err != nil {
		return nil, err
	}
	src := hlib.Unlatin1(v.Src)
	file, perr := syntax.NewParser(syntax.Variant(hlib.LangOf(v.Lang))).Parse(bytes.NewReader(src), "")
	if perr != nil {
		return hlib.RunResult{ParseError: perr.Error(), Status: -1}, nil
	}
	var out, errb bytes.Buffer
	r, nerr := interp.New(interp.StdIO(strings.NewReader(""), &out, &errb),
		interp.Env(expand.ListEnviron("PATH=/usr/bin:/bin", "LC_ALL=C.UTF-8")))
	if nerr != nil {
		return hlib.RunResult{RunError: "New: " + nerr.Error(), Status: -2}, nil
	}
	ctx, cancel := context.WithTimeout(context.Background(), 5*time.Second)
	defer cancel()
	rr := hlib.RunResult{}
	if rerr := r.Run(ctx, file); rerr != nil {
		if st, ok := interp.IsExitStatus(rerr); ok {
			rr.Status = int(st)
		} else {
			rr.RunError = rerr.Error()
			rr.Status = -2
		}
	}
	rr.Out, rr.Err = hlib.Latin1(out.Bytes()), hlib.Latin1(errb.Bytes())
	return rr, nil
}
