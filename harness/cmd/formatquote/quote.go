package main

import (
	"encoding/json"
	"fmt"
	"strings"
	"unicode"
	"unicode/utf8"
	"verif/harness/hlib"

	"mvdan.cc/sh/v3/expand"
	"mvdan.cc/sh/v3/syntax"
)

// C13: one vector = (s as bytes, lang).  The engine calls the real syntax.Quote and records the
// event {s, cls, lang, ok, q}; cls is the per-rune classification of s from Go's utf8/unicode
// tables (trusted base): [size, class, big] with class "print" | "nonprint" | "invalid" and
// big = code point above U+FFFD.  When Quote succeeds the result is also parsed by syntax.Parser
// (as the argument of a command and as a command word) and expanded by expand.Literal.
func init() { hlib.Register("quote", quoteEngine) }

type quoteVec struct {
	S    []int  `json:"s"`
	Lang string `json:"lang"`
}

func toBytes(a []int) string {
	b := make([]byte, len(a))
	for i, x := range a {
		b[i] = byte(x)
	}
	return string(b)
}

// wordShape parses src and, if it is exactly one simple command whose arguments are nargs words,
// returns the last word.
func wordShape(lang syntax.LangVariant, src string, nargs int) (*syntax.Word, string) {
	f, err := syntax.NewParser(syntax.Variant(lang)).Parse(strings.NewReader(src), "")
	if err != nil {
		return nil, "parse error: " + err.Error()
	}
	if len(f.Stmts) != 1 {
		return nil, fmt.Sprintf("%d statements", len(f.Stmts))
	}
	st := f.Stmts[0]
	ce, ok := st.Cmd.(*syntax.CallExpr)
	if !ok || st.Negated || st.Background || st.Coprocess || len(st.Redirs) > 0 {
		return nil, fmt.Sprintf("not a plain simple command (%T)", st.Cmd)
	}
	if len(ce.Assigns) != 0 || len(ce.Args) != nargs {
		return nil, fmt.Sprintf("%d assignments, %d words", len(ce.Assigns), len(ce.Args))
	}
	return ce.Args[nargs-1], ""
}

func partKinds(w *syntax.Word) ([]string, bool) {
	kinds := []string{}
	ok := true
	for _, p := range w.Parts {
		switch p := p.(type) {
		case *syntax.Lit:
			kinds = append(kinds, "Lit")
		case *syntax.SglQuoted:
			if p.Dollar {
				kinds = append(kinds, "SglQuoted$")
			} else {
				kinds = append(kinds, "SglQuoted")
			}
		case *syntax.DblQuoted:
			kinds = append(kinds, "DblQuoted")
			if p.Dollar {
				ok = false
			}
			for _, ip := range p.Parts {
				if _, isLit := ip.(*syntax.Lit); !isLit {
					ok = false
					kinds = append(kinds, fmt.Sprintf("DblQuoted/%T", ip))
				}
			}
		default:
			ok = false
			kinds = append(kinds, fmt.Sprintf("%T", p))
		}
	}
	return kinds, ok
}

func quoteEngine(raw json.RawMessage, _ []string) (any, error) {
	var v quoteVec
	if err := json.Unmarshal(raw, &v); err != nil {
		return nil, err
	}
	s := toBytes(v.S)
	lang := hlib.LangOf(v.Lang)
	cls := [][]any{}
	for rem := s; len(rem) > 0; {
		r, size := utf8.DecodeRuneInString(rem)
		class := "print"
		switch {
		case r == utf8.RuneError && size == 1:
			class = "invalid"
		case !unicode.IsPrint(r):
			class = "nonprint"
		}
		cls = append(cls, []any{size, class, r > 0xFFFD})
		rem = rem[size:]
	}
	q, err := syntax.Quote(s, lang)
	res := map[string]any{"ok": err == nil, "q": bytesOf(q), "cls": cls}
	if err != nil {
		res["errmsg"] = err.Error()
		if _, isQE := err.(*syntax.QuoteError); !isQE {
			res["errtype"] = fmt.Sprintf("%T", err)
		}
		return res, nil
	}
	// (R) as an argument: `x <q>` must be one command with exactly the two words
	w, why := wordShape(lang, "x "+q+"\n", 2)
	if w == nil {
		res["argpos"] = why
	} else {
		kinds, ok := partKinds(w)
		res["kinds"] = kinds
		if !ok {
			res["argpos"] = "parts other than Lit/SglQuoted/DblQuoted"
		} else {
			lit, lerr := expand.Literal(nil, w)
			if lerr != nil {
				res["literr"] = lerr.Error()
			} else {
				res["lit"] = bytesOf(lit)
			}
		}
	}
	// (R) as the command word: `<q>` alone must be one command with that single word
	if w2, why2 := wordShape(lang, q+"\n", 1); w2 == nil {
		res["cmdpos"] = why2
	} else if lit, lerr := expand.Literal(nil, w2); lerr != nil || lit != s {
		res["cmdpos"] = "expands to a different string"
	}
	return res, nil
}
