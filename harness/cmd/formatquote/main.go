// Command formatquote: harness binary for the C24 (printf/echo -e, expand.Format) and
// C13 (syntax.Quote) engines plus the generic "interp" engine.
package main

import "verif/harness/hlib"

func main() { hlib.Main() }
