package main

import (
	"bytes"
	"encoding/json"

	"mvdan.cc/sh/v3/syntax"
	"verif/harness/hlib"
)

// engine "absdump": {"src": latin1, "lang": "bash"} -> {"abs": tree} or {"err": msg}
func init() { hlib.Register("absdump", absDump) }

func absDump(raw json.RawMessage, _ []string) (any, error) {
	var v struct {
		Src  string `json:"src"`
		Lang string `json:"lang"`
	}
	if err := json.Unmarshal(raw, &v); err != nil {
		return nil, err
	}
	p := syntax.NewParser(syntax.Variant(hlib.LangOf(v.Lang)), syntax.KeepComments(true))
	f, err := p.Parse(bytes.NewReader(hlib.Unlatin1(v.Src)), "")
	if err != nil {
		return map[string]any{"err": err.Error()}, nil
	}
	return map[string]any{"abs": Abs(f)}, nil
}
