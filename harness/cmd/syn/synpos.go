package main

import (
	"bytes"
	"encoding/json"
	"fmt"
	"os"
	"reflect"
	"strings"

	"mvdan.cc/sh/v3/syntax"
	"verif/harness/hlib"
)

// engine "synpos" (C09): positions point at the source they describe.
// vector: {"src": latin1, "langs": [...], "expect": {"tok": "tok", "off": n, "line": n, "col": n}?}
// The token table comes from spec/ShPos.tla (STAT vector), file path in $VERIF_POSTABLE.
func init() { hlib.Register("synpos", synPos) }

type posTable struct {
	Tokens []struct {
		Node, Field, When string
		Toks              []string
	} `json:"tokens"`
	OpFields []struct{ Node, Field string } `json:"opfields"`
	Alternates []struct{ Op, Alt string }    `json:"alternates"`
}

var ptab *posTable

func loadPosTable() (*posTable, error) {
	if ptab != nil {
		return ptab, nil
	}
	data, err := os.ReadFile(os.Getenv("VERIF_POSTABLE"))
	if err != nil {
		return nil, err
	}
	var t posTable
	if err := json.Unmarshal(data, &t); err != nil {
		return nil, err
	}
	ptab = &t
	return ptab, nil
}

type posFail struct {
	Lang   string `json:"lang"`
	Kind   string `json:"kind"`
	Where  string `json:"where"`
	Detail string `json:"detail"`
}

func lineCol(src []byte, off int) (int, int) {
	line := 1 + bytes.Count(src[:off], []byte{'\n'})
	last := bytes.LastIndexByte(src[:off], '\n')
	return line, off - (last + 1) + 1
}

func cleanAt(src []byte, off int, want string) string {
	got := string(src[off:])
	got = strings.ReplaceAll(got, "\x00", "")
	got = strings.ReplaceAll(got, "\r\n", "\n")
	if !strings.Contains(want, "\\\n") {
		got = strings.ReplaceAll(got, "\\\n", "")
	}
	return got
}

var nodeIface = reflect.TypeOf((*syntax.Node)(nil)).Elem()

func synPos(raw json.RawMessage, _ []string) (any, error) {
	var v struct {
		Src    string   `json:"src"`
		Langs  []string `json:"langs"`
		Expect *struct {
			Tok            string
			Off, Line, Col int
		} `json:"expect"`
	}
	if err := json.Unmarshal(raw, &v); err != nil {
		return nil, err
	}
	tab, err := loadPosTable()
	if err != nil {
		return nil, err
	}
	src := hlib.Unlatin1(v.Src)
	var fails []posFail
	checked := 0
	parsed := []string{}
	for _, ln := range v.Langs {
		f, err := parseSrc(src, hlib.LangOf(ln))
		if err != nil {
			continue
		}
		parsed = append(parsed, ln)
		fail := func(kind, where, detail string) {
			if len(fails) < 30 {
				fails = append(fails, posFail{ln, kind, where, detail})
			}
		}
		hasBsNl := bytes.Contains(src, []byte("\\\n")) || bytes.Contains(src, []byte("\\\r\n"))
		hasBqBs := bytes.Contains(src, []byte("`")) && bytes.Contains(src, []byte("\\"))
		hasDashHdoc := bytes.Contains(src, []byte("<<-"))
		checkPos := func(kind, field string, pos syntax.Pos) bool {
			if !pos.IsValid() {
				return false
			}
			checked++
			off := int(pos.Offset())
			if off > len(src) {
				fail("out-of-bounds", kind+"."+field, fmt.Sprintf("offset %d > %d", off, len(src)))
				return false
			}
			l, c := lineCol(src, off)
			if int(pos.Line()) != l || int(pos.Col()) != c {
				// keyed by what precedes the position, not by the node: see posClass
				fail("line-col", posClass(src, off), fmt.Sprintf("%s.%s: offset %d is %d:%d, position says %d:%d", kind, field, off, l, c, pos.Line(), pos.Col()))
			}
			return true
		}
		checkTok := func(kind, field string, pos syntax.Pos, toks []string) {
			if !pos.IsValid() || int(pos.Offset()) > len(src) || hasDashHdoc {
				return
			}
			for _, t := range toks {
				if strings.HasPrefix(cleanAt(src, int(pos.Offset()), t), t) {
					return
				}
			}
			got := string(src[pos.Offset():])
			if len(got) > 12 {
				got = got[:12]
			}
			fail("token", kind+"."+field, fmt.Sprintf("want one of %q at offset %d, found %q", toks, pos.Offset(), got))
		}
		var walk func(v reflect.Value, parent syntax.Node, inHdoc bool)
		walk = func(v reflect.Value, parent syntax.Node, inHdoc bool) {
			switch v.Kind() {
			case reflect.Interface:
				if !v.IsNil() {
					walk(v.Elem(), parent, inHdoc)
				}
			case reflect.Pointer:
				if v.IsNil() {
					return
				}
				if n, ok := v.Interface().(syntax.Node); ok {
					kind := v.Elem().Type().Name()
					p, e := n.Pos(), n.End()
					if p.IsValid() && e.IsValid() && p.After(e) {
						fail("pos-after-end", kind, fmt.Sprintf("%v > %v", p, e))
					}
					checkPos(kind, "Pos()", p)
					checkPos(kind, "End()", e)
					if parent != nil && !inHdoc {
						pp, pe := parent.Pos(), parent.End()
						if p.IsValid() && pp.IsValid() && pp.After(p) {
							fail("child-before-parent", kind+" in "+reflect.TypeOf(parent).Elem().Name(), fmt.Sprintf("%v < %v", p, pp))
						}
						// Exception stated in the spec: a here-document body lies after the line of its
						// operator, so a node containing one may end after an enclosing node that does
						// not count the body.
						if e.IsValid() && pe.IsValid() && e.After(pe) && !hdocBetween(f, pe, e) {
							fail("child-after-parent", kind+" in "+reflect.TypeOf(parent).Elem().Name(), fmt.Sprintf("%v > %v", e, pe))
						}
					}
					// node-specific contracts that need values
					switch x := n.(type) {
					case *syntax.Lit:
						if !inHdoc && !hasBsNl && !hasBqBs && !hasDashHdoc {
							off, end := int(x.ValuePos.Offset()), int(x.ValueEnd.Offset())
							// CRLF is read as LF: the CR of a pair that ends the literal belongs to the line ending
							// (the repository's own checker makes the same allowance)
							if end < len(src) && end > off && src[end] == '\n' && src[end-1] == '\r' {
								end--
							}
							if end <= len(src) && off <= end && string(bytes.ReplaceAll(bytes.ReplaceAll(src[off:end], []byte{0}, nil), []byte("\r\n"), []byte("\n"))) != x.Value {
								fail("lit-text", "Lit", fmt.Sprintf("src[%d:%d]=%q but Value=%q", off, end, src[off:end], x.Value))
							}
						}
					case *syntax.Comment:
						checkTok("Comment", "Hash", x.Hash, []string{"#" + x.Text})
					}
					walkStruct(v.Elem(), n, inHdoc, kind, tab, checkPos, checkTok, walk)
					return
				}
				walk(v.Elem(), parent, inHdoc)
			case reflect.Struct:
				if v.Type() == posType {
					return
				}
				if v.Type() == commentType {
					c := v.Interface().(syntax.Comment)
					checkPos("Comment", "Hash", c.Hash)
					checkTok("Comment", "Hash", c.Hash, []string{"#" + c.Text})
					return
				}
				walkStruct(v, parent, inHdoc, v.Type().Name(), tab, checkPos, checkTok, walk)
			case reflect.Slice:
				var prev syntax.Pos
				for i := 0; i < v.Len(); i++ {
					el := v.Index(i)
					if st, ok := el.Interface().(*syntax.Stmt); ok && st != nil {
						if i > 0 && prev.IsValid() && !st.Pos().After(prev) {
							fail("stmt-order", "Stmts", fmt.Sprintf("%v not after %v", st.Pos(), prev))
						}
						prev = st.Pos()
					}
					walk(el, parent, inHdoc)
				}
			}
		}
		walk(reflect.ValueOf(f), nil, false)
		if v.Expect != nil {
			found := false
			syntax.Walk(f, func(n syntax.Node) bool {
				if l, ok := n.(*syntax.Lit); ok && l.Value == v.Expect.Tok {
					found = true
					p := l.ValuePos
					if int(p.Offset()) != v.Expect.Off || int(p.Line()) != v.Expect.Line || int(p.Col()) != v.Expect.Col {
						fail("tracker", "Lit "+v.Expect.Tok, fmt.Sprintf("want %d %d:%d got %d %d:%d", v.Expect.Off, v.Expect.Line, v.Expect.Col, p.Offset(), p.Line(), p.Col()))
					}
				}
				return true
			})
			if !found {
				fail("tracker", "Lit "+v.Expect.Tok, "token not found in tree")
			}
		}
	}
	return map[string]any{"fails": fails, "checked": checked, "parsed": parsed}, nil
}

func walkStruct(v reflect.Value, self syntax.Node, inHdoc bool, kind string, tab *posTable,
	checkPos func(string, string, syntax.Pos) bool, checkTok func(string, string, syntax.Pos, []string),
	walk func(reflect.Value, syntax.Node, bool)) {
	t := v.Type()
	flag := func(name string) bool {
		neg := strings.HasPrefix(name, "!")
		name = strings.TrimPrefix(name, "!")
		f := v.FieldByName(name)
		val := f.IsValid() && f.Kind() == reflect.Bool && f.Bool()
		return val != neg
	}
	for i := 0; i < t.NumField(); i++ {
		f := t.Field(i)
		if !f.IsExported() {
			continue
		}
		fv := v.Field(i)
		if fv.Type() == posType {
			pos := fv.Interface().(syntax.Pos)
			if !checkPos(kind, f.Name, pos) {
				continue
			}
			for _, e := range tab.Tokens {
				if e.Node == kind && e.Field == f.Name && (e.When == "" || flag(e.When)) {
					checkTok(kind, f.Name, pos, e.Toks)
				}
			}
			for _, e := range tab.OpFields {
				if e.Node == kind && e.Field == f.Name {
					if opf := v.FieldByName("Op"); opf.IsValid() {
						if s, ok := opf.Interface().(fmt.Stringer); ok {
							toks := []string{s.String()}
							for _, a := range tab.Alternates {
								if a.Op == s.String() {
									toks = append(toks, a.Alt)
								}
							}
							checkTok(kind, f.Name, pos, toks)
						}
					}
				}
			}
			continue
		}
		childHdoc := inHdoc || (kind == "Redirect" && f.Name == "Hdoc")
		if fv.Kind() == reflect.Slice && fv.Type().Elem() == commentType {
			for j := 0; j < fv.Len(); j++ {
				walk(fv.Index(j), nil, childHdoc) // comments may lie outside their node's range
			}
			continue
		}
		walk(fv, self, childHdoc)
	}
}

// hdocBetween reports whether a here-document body starts in (from, to].
func hdocBetween(f *syntax.File, from, to syntax.Pos) bool {
	found := false
	syntax.Walk(f, func(n syntax.Node) bool {
		if r, ok := n.(*syntax.Redirect); ok && r.Hdoc != nil {
			if p := r.Hdoc.Pos(); p.IsValid() && p.After(from) && !p.After(to) {
				found = true
			}
			// an empty body has no position of its own: use the operator line
			if !r.Hdoc.Pos().IsValid() || len(r.Hdoc.Parts) == 0 {
				if r.OpPos.Line() <= to.Line() && r.End().After(from) {
					found = true
				}
			}
		}
		return !found
	})
	return found
}
