package main

import (
	"bytes"
	"encoding/json"
	"errors"
	"fmt"
	"io"
	"testing/iotest"

	"mvdan.cc/sh/v3/syntax"
	"verif/harness/hlib"
)

// engine "syncut" (C10): {"src": latin1, "langs": [...], "valid": bool}
// valid=true: every cut of src at a line boundary must parse or fail with an incomplete error.
// Always: any parse error must carry a position inside the input with consistent line/column.
func init() { hlib.Register("syncut", synCut) }

func checkErrPos(src []byte, err error) string {
	var pe syntax.ParseError
	if !errors.As(err, &pe) {
		var le syntax.LangError
		if errors.As(err, &le) {
			return checkOnePos(src, le.Pos)
		}
		return "" // not a positioned error (e.g. reader error)
	}
	return checkOnePos(src, pe.Pos)
}

func checkOnePos(src []byte, pos syntax.Pos) string {
	if !pos.IsValid() {
		return "error position is invalid"
	}
	off := int(pos.Offset())
	if off > len(src) {
		return fmt.Sprintf("error offset %d beyond input of %d bytes", off, len(src))
	}
	l, c := lineCol(src, off)
	if int(pos.Line()) != l || int(pos.Col()) != c {
		return fmt.Sprintf("error position disagrees with its offset on a %s: says %d:%d but offset %d is %d:%d", posClass(src, off), pos.Line(), pos.Col(), off, l, c)
	}
	return ""
}

func synCut(raw json.RawMessage, _ []string) (any, error) {
	var v struct {
		Src   string   `json:"src"`
		Langs []string `json:"langs"`
		Valid bool     `json:"valid"`
	}
	if err := json.Unmarshal(raw, &v); err != nil {
		return nil, err
	}
	src := hlib.Unlatin1(v.Src)
	type cutFail struct {
		Lang   string `json:"lang"`
		Kind   string `json:"kind"`
		Cut    int    `json:"cut"`
		Detail string `json:"detail"`
	}
	var fails []cutFail
	cuts, incomplete, errs := 0, 0, 0
	for _, ln := range v.Langs {
		lang := hlib.LangOf(ln)
		_, err := parseSrc(src, lang)
		if err != nil {
			errs++
			if d := checkErrPos(src, err); d != "" {
				fails = append(fails, cutFail{ln, "error-position", len(src), d + ": " + err.Error()})
			}
			if v.Valid {
				continue // conformance of whole programs is C11's business
			}
		}
		if !v.Valid {
			continue
		}
		for i, b := range src {
			if b != '\n' || i+1 >= len(src) {
				continue
			}
			prefix := src[:i+1]
			cuts++
			_, err := parseSrc(prefix, lang)
			// The same prefix through readers that signal the end of input differently: the verdict on
			// incompleteness must not depend on it (data together with io.EOF; one byte per Read).
			for ri, rd := range []io.Reader{iotest.DataErrReader(bytes.NewReader(prefix)), iotest.OneByteReader(bytes.NewReader(prefix))} {
				_, err2 := syntax.NewParser(syntax.Variant(lang), syntax.KeepComments(true)).Parse(rd, "")
				if (err == nil) != (err2 == nil) || syntax.IsIncomplete(err) != syntax.IsIncomplete(err2) {
					if len(fails) < 20 {
						fails = append(fails, cutFail{ln, "cut-reader-dependent", i + 1,
							fmt.Sprintf("reader %d: plain reader says err=%v incomplete=%v, this reader says err=%v incomplete=%v",
								ri, err != nil, syntax.IsIncomplete(err), err2 != nil, syntax.IsIncomplete(err2))})
					}
				}
			}
			if err == nil {
				continue
			}
			if d := checkErrPos(prefix, err); d != "" && len(fails) < 20 {
				fails = append(fails, cutFail{ln, "error-position", i + 1, d + ": " + err.Error()})
			}
			if syntax.IsIncomplete(err) {
				incomplete++
				continue
			}
			if len(fails) < 20 {
				// signature: the error message without its position and the normalised text before the cut
				fails = append(fails, cutFail{ln, "cut-not-incomplete", i + 1,
					sigParseError(err.Error(), string(prefix)) + " | prefix ends " + fmt.Sprintf("%q", normText(window(string(prefix), len(prefix), 2, 0)))})
			}
		}
	}
	_ = bytes.MinRead
	return map[string]any{"fails": fails, "cuts": cuts, "incomplete": incomplete, "errors": errs}, nil
}
