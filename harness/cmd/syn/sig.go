package main

import (
	"fmt"
	"regexp"
	"sort"
	"strings"
)

// Failure signatures: a compact identification of *where* a check failed (the "call site" of a
// finding), so that known findings can be listed once per root cause instead of once per input,
// while a failure at a different place still gets a different key.

var keywords = map[string]bool{"for": true, "do": true, "done": true, "if": true, "then": true, "fi": true, "case": true,
	"esac": true, "in": true, "let": true, "time": true, "function": true, "select": true, "while": true, "until": true,
	"elif": true, "else": true, "coproc": true, "declare": true, "local": true, "export": true, "readonly": true,
	"typeset": true, "EOF": true}

var identRe = regexp.MustCompile(`[A-Za-z_][A-Za-z0-9_]*|[0-9]+`)
var spaceRe = regexp.MustCompile(`[ \t]+`)

// normText abstracts identifiers to w and numbers to 0, keeps keywords, operators and newlines.
func normText(s string) string {
	s = identRe.ReplaceAllStringFunc(s, func(m string) string {
		if keywords[m] {
			return m
		}
		if m[0] >= '0' && m[0] <= '9' {
			return "0"
		}
		return "w"
	})
	s = spaceRe.ReplaceAllString(s, " ")
	for strings.Contains(s, "\\\n\\\n") { // runs of backslash-newline continuations count once
		s = strings.ReplaceAll(s, "\\\n\\\n", "\\\n")
	}
	return s
}

func window(s string, pos, before, after int) string {
	lo, hi := pos-before, pos+after
	if lo < 0 {
		lo = 0
	}
	if hi > len(s) {
		hi = len(s)
	}
	if lo > hi {
		lo = hi
	}
	return s[lo:hi]
}

// sigDiffText: context around the first differing byte of two texts.
func sigDiffText(a, b string) string {
	i := 0
	for i < len(a) && i < len(b) && a[i] == b[i] {
		i++
	}
	return fmt.Sprintf("%q vs %q", normText(window(a, i, 0, 2)), normText(window(b, i, 0, 2)))
}

var posRe = regexp.MustCompile(`^(\d+):(\d+): `)

// sigParseError: the message without its position plus the printed text just before the position.
func sigParseError(msg, out string) string {
	m := posRe.FindStringSubmatch(msg)
	ctx := ""
	if m != nil {
		var line, col int
		fmt.Sscan(m[1], &line)
		fmt.Sscan(m[2], &col)
		lines := strings.Split(out, "\n")
		if line >= 1 && line <= len(lines) {
			l := lines[line-1]
			if col-1 <= len(l) && col >= 1 {
				ctx = normText(window(l, col-1, 0, 8))
			}
		}
		msg = msg[len(m[0]):]
	}
	msg = regexp.MustCompile("`[^`]*`").ReplaceAllStringFunc(msg, func(q string) string { return "`" + normText(strings.Trim(q, "`")) + "`" })
	return fmt.Sprintf("%s near %q", msg, ctx)
}

// sigTreeDiff: path of node kinds (list indices dropped) to the first difference of two Abs trees.
func sigTreeDiff(want, got any) string {
	var path []string
	var walk func(w, g any) bool
	walk = func(w, g any) bool {
		switch wv := w.(type) {
		case map[string]any:
			gv, ok := g.(map[string]any)
			if !ok {
				path = append(path, fmt.Sprintf("<%v became %T>", wv["k"], g))
				return true
			}
			if wv["k"] != gv["k"] {
				path = append(path, fmt.Sprintf("<%v became %v>", wv["k"], gv["k"]))
				return true
			}
			kind, _ := wv["k"].(string)
			keys := map[string]bool{}
			for k := range wv {
				keys[k] = true
			}
			for k := range gv {
				keys[k] = true
			}
			var ks []string
			for k := range keys {
				ks = append(ks, k)
			}
			sort.Strings(ks)
			for _, k := range ks {
				a, aok := wv[k]
				b, bok := gv[k]
				if !aok || !bok {
					path = append(path, kind+"."+k+map[bool]string{true: " added", false: " dropped"}[bok])
					return true
				}
				path = append(path, kind+"."+k)
				if walk(a, b) {
					return true
				}
				path = path[:len(path)-1]
			}
			return false
		case []any:
			gv, ok := g.([]any)
			if !ok {
				path = append(path, "<list became scalar>")
				return true
			}
			for i := range wv {
				if i >= len(gv) {
					path = append(path, "<list shorter>")
					return true
				}
				if walk(wv[i], gv[i]) {
					return true
				}
			}
			if len(gv) > len(wv) {
				path = append(path, "<list longer>")
				return true
			}
			return false
		default:
			if w != g {
				ws, _ := w.(string)
				gs, _ := g.(string)
				path = append(path, fmt.Sprintf("%q became %q", normText(ws), normText(gs)))
				return true
			}
			return false
		}
	}
	walk(want, got)
	return strings.Join(path, ">")
}

// sigComments: what happened to the comment sequence and the source text just before the first
// comment that was lost or moved.
func sigComments(src string, before, after []string) string {
	i := 0
	for i < len(before) && i < len(after) && before[i] == after[i] {
		i++
	}
	count := func(xs []string) map[string]int {
		m := map[string]int{}
		for _, x := range xs {
			m[x]++
		}
		return m
	}
	cb, ca := count(before), count(after)
	same := len(cb) == len(ca)
	for k, n := range cb {
		if ca[k] != n {
			same = false
		}
	}
	what := "replaced" // same number of comments, but some text lost and some other duplicated
	switch {
	case same:
		what = "moved"
	case len(after) < len(before):
		what = "lost"
	case len(after) > len(before):
		what = "duplicated"
	}
	ctx := ""
	if i < len(before) {
		if p := strings.Index(src, "#"+before[i]); p >= 0 {
			// the source line that carries the comment; for a comment on its own line, the nearest
			// earlier line that holds code: its first token(s) and what kind of things it holds
			ls := strings.LastIndexByte(src[:p], '\n') + 1
			line := src[ls:p]
			own := ""
			for strings.TrimSpace(line) == "" || strings.HasPrefix(strings.TrimSpace(line), "#") {
				own = "own line after "
				if ls == 0 {
					break
				}
				le := ls - 1
				ls = strings.LastIndexByte(src[:le], '\n') + 1
				line = src[ls:le]
			}
			first := strings.Fields(normText(line))
			if len(first) > 0 {
				ctx = first[0]
				if len(first) > 1 && keywords[first[0]] {
					ctx += " " + first[1]
				}
			}
			if strings.Contains(line, "<<") {
				ctx = "+heredoc" // the statement kind does not matter here
			}
			if strings.Contains(line, "$(") || strings.Contains(line, "<(") || strings.Contains(line, "`") {
				ctx += " +subst"
			}
			ctx = own + ctx
		}
	}
	return fmt.Sprintf("%s on a line starting %q", what, ctx)
}

// posClass classifies what precedes a position on its line and the way the previous line ended:
// the root causes of line/column disagreements are about those, not about the node kind.
func posClass(src []byte, off int) string {
	if off > len(src) {
		off = len(src)
	}
	ls := 0
	for i := off - 1; i >= 0; i-- {
		if src[i] == '\n' {
			ls = i + 1
			break
		}
	}
	prev := "start"
	switch {
	case ls >= 3 && string(src[ls-3:ls]) == "\\\r\n":
		prev = "backslash-CRLF"
	case ls >= 2 && string(src[ls-2:ls]) == "\\\n":
		prev = "backslash-LF"
	case ls >= 2 && string(src[ls-2:ls]) == "\r\n":
		prev = "CRLF"
	case ls >= 1:
		prev = "LF"
	}
	on := ""
	for _, b := range src[ls:off] {
		switch {
		case b == 0 && !strings.Contains(on, "NUL"):
			on += "+NUL"
		case b == '\r' && !strings.Contains(on, "CR"):
			on += "+CR"
		case b >= 0x80 && !strings.Contains(on, "multibyte"):
			on += "+multibyte"
		}
	}
	return "line after " + prev + on
}
