package main

import (
	"bytes"
	"encoding/json"
	"fmt"
	"reflect"
	"sort"
	"strings"

	"mvdan.cc/sh/v3/syntax"
	"verif/harness/hlib"
)

// engine "synprint": the workhorse of C01/C02/C05/C11.
// vector: {"src": latin1, "langs": ["bash",...], "t","n","m": expected trees (optional),
//
//	"rows": [[indent, bits], ...], "sub": bool}
//
// bits: 1 BinaryNextLine 2 SwitchCaseIndent 4 SpaceRedirects 8 KeepPadding 16 FunctionNextLine 32 Minify 64 SingleLine
func init() { hlib.Register("synprint", synPrint) }

type synVec struct {
	Src   string   `json:"src"`
	Langs []string `json:"langs"`
	T     any      `json:"t"`
	N     any      `json:"n"`
	M     any      `json:"m"`
	Rows  [][2]int `json:"rows"`
	Sub   bool     `json:"sub"`
}

type synFail struct {
	Lang   string `json:"lang"`
	Row    [2]int `json:"row"`
	MinRow [2]int `json:"minrow"`
	Kind   string `json:"kind"`
	Sig    string `json:"sig"`
	Detail string `json:"detail,omitempty"`
	Out    string `json:"out,omitempty"`
}

type langRes struct {
	OK       bool     `json:"ok"`
	Err      string   `json:"err,omitempty"`
	AbsEqual bool     `json:"abs_equal"`
	Abs      any      `json:"abs,omitempty"`
	NonPosix []string `json:"nonposix,omitempty"`
	Prints   int      `json:"prints"`
}

func printerOpts(row [2]int) []syntax.PrinterOption {
	b := row[1]
	return []syntax.PrinterOption{
		syntax.Indent(uint(row[0])),
		syntax.BinaryNextLine(b&1 != 0),
		syntax.SwitchCaseIndent(b&2 != 0),
		syntax.SpaceRedirects(b&4 != 0),
		syntax.KeepPadding(b&8 != 0),
		syntax.FunctionNextLine(b&16 != 0),
		syntax.Minify(b&32 != 0),
		syntax.SingleLine(b&64 != 0),
	}
}

// comments collects every Comment reachable by reflection, in source order.
func comments(n any) []string {
	type c struct {
		off  uint
		text string
	}
	var cs []c
	var walk func(v reflect.Value)
	walk = func(v reflect.Value) {
		switch v.Kind() {
		case reflect.Interface, reflect.Pointer:
			if !v.IsNil() {
				walk(v.Elem())
			}
		case reflect.Struct:
			if v.Type() == commentType {
				cm := v.Interface().(syntax.Comment)
				cs = append(cs, c{cm.Hash.Offset(), cm.Text})
				return
			}
			if v.Type() == posType {
				return
			}
			for i := 0; i < v.NumField(); i++ {
				if v.Type().Field(i).IsExported() {
					walk(v.Field(i))
				}
			}
		case reflect.Slice:
			for i := 0; i < v.Len(); i++ {
				walk(v.Index(i))
			}
		}
	}
	walk(reflect.ValueOf(n))
	sort.SliceStable(cs, func(i, j int) bool { return cs[i].off < cs[j].off })
	out := make([]string, len(cs))
	for i, x := range cs {
		out[i] = strings.TrimRight(x.text, " \t\r")
	}
	return out
}

// nonPosixKinds lists node kinds / fields of the real tree that only exist outside POSIX (C11).
func nonPosixKinds(n any) []string {
	seen := map[string]bool{}
	var walk func(v reflect.Value)
	walk = func(v reflect.Value) {
		switch v.Kind() {
		case reflect.Interface, reflect.Pointer:
			if !v.IsNil() {
				walk(v.Elem())
			}
		case reflect.Struct:
			if v.Type() == posType || v.Type() == commentType {
				return
			}
			switch x := v.Interface().(type) {
			case syntax.TestClause, syntax.ArithmCmd, syntax.ArrayExpr, syntax.ProcSubst, syntax.ExtGlob,
				syntax.DeclClause, syntax.LetClause, syntax.CoprocClause, syntax.TimeClause, syntax.TestDecl:
				seen[v.Type().Name()] = true
			case syntax.SglQuoted:
				if x.Dollar {
					seen["SglQuoted.Dollar"] = true
				}
			case syntax.DblQuoted:
				if x.Dollar {
					seen["DblQuoted.Dollar"] = true
				}
			case syntax.ParamExp:
				if x.Index != nil || x.Slice != nil || x.Repl != nil || x.Excl || x.Width || x.IsSet || x.Names != 0 ||
					x.Flags != nil || x.NestedParam != nil || len(x.Modifiers) > 0 {
					seen["ParamExp.nonposix"] = true
				}
				if x.Exp != nil {
					switch x.Exp.Op {
					case syntax.UpperFirst, syntax.UpperAll, syntax.LowerFirst, syntax.LowerAll, syntax.OtherParamOps:
						seen["ParamExp.Exp."+x.Exp.Op.String()] = true
					}
				}
			case syntax.Assign:
				if x.Append || x.Index != nil || x.Array != nil {
					seen["Assign.nonposix"] = true
				}
			case syntax.ForClause:
				if x.Select || x.Braces {
					seen["ForClause.nonposix"] = true
				}
				if _, ok := x.Loop.(*syntax.CStyleLoop); ok {
					seen["CStyleLoop"] = true
				}
			case syntax.FuncDecl:
				if x.RsrvWord {
					seen["FuncDecl.RsrvWord"] = true
				}
			case syntax.Redirect:
				switch x.Op {
				case syntax.WordHdoc, syntax.RdrAll, syntax.AppAll:
					seen["Redirect."+x.Op.String()] = true
				}
			case syntax.BinaryCmd:
				if x.Op == syntax.PipeAll {
					seen["BinaryCmd.|&"] = true
				}
			case syntax.CaseItem:
				if x.Op != syntax.Break {
					seen["CaseItem."+x.Op.String()] = true
				}
			case syntax.Stmt:
				if x.Coprocess || x.Disown {
					seen["Stmt.Coprocess"] = true
				}
			case syntax.ArithmExp:
				if x.Bracket || x.Unsigned {
					seen["ArithmExp.nonposix"] = true
				}
			case syntax.CmdSubst:
				if x.TempFile || x.ReplyVar {
					seen["CmdSubst.nonposix"] = true
				}
			}
			for i := 0; i < v.NumField(); i++ {
				if v.Type().Field(i).IsExported() {
					walk(v.Field(i))
				}
			}
		case reflect.Slice:
			for i := 0; i < v.Len(); i++ {
				walk(v.Index(i))
			}
		}
	}
	walk(reflect.ValueOf(n))
	var out []string
	for k := range seen {
		out = append(out, k)
	}
	sort.Strings(out)
	return out
}

func parseSrc(src []byte, lang syntax.LangVariant, opts ...syntax.ParserOption) (*syntax.File, error) {
	opts = append([]syntax.ParserOption{syntax.Variant(lang), syntax.KeepComments(true)}, opts...)
	return syntax.NewParser(opts...).Parse(bytes.NewReader(src), "")
}

func synPrint(raw json.RawMessage, _ []string) (any, error) {
	var v synVec
	if err := json.Unmarshal(raw, &v); err != nil {
		return nil, err
	}
	src := hlib.Unlatin1(v.Src)
	res := map[string]*langRes{}
	absByLang := map[string]any{}
	var fails []synFail
	fail := func(lang string, row [2]int, kind, detail, out string) {
		if len(fails) < 40 {
			if len(out) > 2000 {
				out = out[:2000]
			}
			fails = append(fails, synFail{Lang: lang, Row: row, MinRow: row, Kind: kind, Detail: detail, Out: hlib.Latin1([]byte(out))})
		}
	}
	for _, ln := range v.Langs {
		lang := hlib.LangOf(ln)
		lr := &langRes{}
		res[ln] = lr
		f, err := parseSrc(src, lang)
		if err != nil {
			lr.Err = err.Error()
			continue
		}
		lr.OK = true
		abs := Abs(f)
		absByLang[ln] = abs
		if v.T != nil {
			lr.AbsEqual = reflect.DeepEqual(abs, v.T)
			if !lr.AbsEqual {
				lr.Abs = abs
			}
		}
		if ln == "posix" {
			lr.NonPosix = nonPosixKinds(f)
		}
		// RecoverErrors on a valid input: same tree (C11)
		for _, k := range []int{1, 3, 10} {
			f2, err2 := parseSrc(src, lang, syntax.RecoverErrors(k))
			if err2 != nil {
				fail(ln, [2]int{}, "recover-errors-rejects-valid", fmt.Sprintf("RecoverErrors(%d): %v", k, err2), "")
			} else if !reflect.DeepEqual(f2, f) {
				fail(ln, [2]int{}, "recover-errors-changes-tree", fmt.Sprintf("RecoverErrors(%d)", k), "")
			}
		}
		srcComments := comments(f)
		for _, row := range v.Rows {
			lr.Prints++
			for _, rf := range checkRow(f, src, srcComments, lang, row, &v, lr.AbsEqual) {
				// canonical (minimal) option set that still shows the same kind of failure
				min := row
				for _, bit := range []int{64, 32, 16, 8, 4, 2, 1} {
					if min[1]&bit == 0 {
						continue
					}
					try := [2]int{min[0], min[1] &^ bit}
					if hasKind(checkRow(f, src, srcComments, lang, try, &v, lr.AbsEqual), rf.Kind) {
						min = try
					}
				}
				for _, ind := range []int{0, 2} {
					if min[0] == ind {
						break
					}
					try := [2]int{ind, min[1]}
					if hasKind(checkRow(f, src, srcComments, lang, try, &v, lr.AbsEqual), rf.Kind) {
						min = try
						break
					}
				}
				rf.Lang, rf.Row, rf.MinRow = ln, row, min
				if len(fails) < 60 {
					fails = append(fails, rf)
				}
			}
		}
	}
	// C11: everything accepted as Bash is accepted as Bats with the same tree
	if b, ok := res["bash"]; ok && b.OK {
		if t, ok := res["bats"]; ok {
			if !t.OK {
				fail("bats", [2]int{}, "bash-accepted-bats-rejected", t.Err, "")
			} else if !reflect.DeepEqual(absByLang["bash"], absByLang["bats"]) {
				fail("bats", [2]int{}, "bash-bats-tree-differs", "", "")
			}
		}
	}
	return map[string]any{"langs": res, "fails": fails}, nil
}

// collectNodes gathers, in reflection order, every *Stmt, every Command and every call-argument *Word.
func collectNodes(n any) (stmts []*syntax.Stmt, cmds []syntax.Command, words []*syntax.Word) {
	var walk func(v reflect.Value)
	walk = func(v reflect.Value) {
		switch v.Kind() {
		case reflect.Interface:
			if !v.IsNil() {
				walk(v.Elem())
			}
		case reflect.Pointer:
			if v.IsNil() {
				return
			}
			switch x := v.Interface().(type) {
			case *syntax.Stmt:
				stmts = append(stmts, x)
				if x.Cmd != nil {
					cmds = append(cmds, x.Cmd)
				}
			case *syntax.CallExpr:
				words = append(words, x.Args...)
			}
			walk(v.Elem())
		case reflect.Struct:
			if v.Type() == posType || v.Type() == commentType {
				return
			}
			for i := 0; i < v.NumField(); i++ {
				if v.Type().Field(i).IsExported() {
					walk(v.Field(i))
				}
			}
		case reflect.Slice:
			for i := 0; i < v.Len(); i++ {
				walk(v.Index(i))
			}
		}
	}
	walk(reflect.ValueOf(n))
	return
}

// subNodeChecks: printing a statement, command or argument word on its own must give text that
// parses to the same sub-tree as the corresponding node of the re-parsed whole output.
func subNodeChecks(f, re *syntax.File, lang syntax.LangVariant, row [2]int, fail func(string, [2]int, string, string, string)) {
	ln := ""
	s1, c1, w1 := collectNodes(f)
	s2, c2, w2 := collectNodes(re)
	if len(s1) != len(s2) || len(c1) != len(c2) || len(w1) != len(w2) {
		return // the whole-tree comparison has already failed
	}
	pr := func(n syntax.Node) ([]byte, error) {
		var buf bytes.Buffer
		err := syntax.NewPrinter(printerOpts(row)...).Print(&buf, n)
		return buf.Bytes(), err
	}
	for i, s := range s1 {
		out, err := pr(s)
		if err != nil {
			fail(ln, row, "sub-print-error", "Stmt: "+err.Error(), "")
			continue
		}
		g, err := parseSrc(out, lang)
		if err != nil || len(g.Stmts) != 1 {
			fail(ln, row, "sub-reparse-error", fmt.Sprintf("Stmt: %v (%d stmts)", err, len(g.Stmts)), string(out))
			continue
		}
		if a, b := Abs(s2[i]), Abs(g.Stmts[0]); !reflect.DeepEqual(a, b) {
			fail(ln, row, "sub-tree-changed", "Stmt: "+sigTreeDiff(a, b), string(out))
		}
	}
	for i, c := range c1 {
		out, err := pr(c)
		if err != nil {
			fail(ln, row, "sub-print-error", "Command: "+err.Error(), "")
			continue
		}
		g, err := parseSrc(out, lang)
		if err != nil || len(g.Stmts) != 1 {
			fail(ln, row, "sub-reparse-error", fmt.Sprintf("Command: %v", err), string(out))
			continue
		}
		if a, b := Abs(c2[i]), Abs(g.Stmts[0].Cmd); !reflect.DeepEqual(a, b) {
			fail(ln, row, "sub-tree-changed", "Command: "+sigTreeDiff(a, b), string(out))
		}
	}
	for i, w := range w1 {
		out, err := pr(w)
		if err != nil {
			fail(ln, row, "sub-print-error", "Word: "+err.Error(), "")
			continue
		}
		// a word used as a command argument: re-parse it in argument position
		g, err := parseSrc(append([]byte("x "), out...), lang)
		if err != nil || len(g.Stmts) != 1 {
			fail(ln, row, "sub-reparse-error", fmt.Sprintf("Word: %v", err), string(out))
			continue
		}
		ce, ok := g.Stmts[0].Cmd.(*syntax.CallExpr)
		if !ok || len(ce.Args) != 2 || !reflect.DeepEqual(Abs(ce.Args[1]), Abs(w2[i])) {
			fail(ln, row, "sub-tree-changed", "Word", string(out))
		}
	}
}

func hasKind(fs []synFail, kind string) bool {
	for _, f := range fs {
		if f.Kind == kind {
			return true
		}
	}
	return false
}

// checkRow prints f with one option row and checks C01 (tree), C02 (idempotency), C05 (comments).
func checkRow(f *syntax.File, src []byte, srcComments []string, lang syntax.LangVariant, row [2]int, v *synVec, absEqual bool) (fails []synFail) {
	failSig := func(kind, sig, detail, out string) {
		if len(out) > 2000 {
			out = out[:2000]
		}
		if len(detail) > 3000 {
			detail = detail[:3000]
		}
		fails = append(fails, synFail{Kind: kind, Sig: sig, Detail: detail, Out: hlib.Latin1([]byte(out))})
	}
	fail := func(kind, detail, out string) { failSig(kind, detail, detail, out) }
	minify, single, keepPad := row[1]&32 != 0, row[1]&64 != 0, row[1]&8 != 0
	var buf bytes.Buffer
	perr := syntax.NewPrinter(printerOpts(row)...).Print(&buf, f)
	if minify && single {
		if perr == nil {
			fail("minify-singleline-not-refused", "", buf.String())
		}
		return
	}
	if perr != nil {
		fail("print-error", perr.Error(), "")
		return
	}
	out := buf.Bytes()
	re, err := parseSrc(out, lang)
	if err != nil {
		failSig("reparse-error", sigParseError(err.Error(), string(out)), err.Error(), string(out))
		return
	}
	reAbs := Abs(re)
	// C01 needs the spec's Norm(tree): only where the parser conformed to the spec tree.
	var want any
	if v.N != nil && absEqual {
		want = v.N
		if minify {
			want = v.M
		}
	}
	if want != nil && !reflect.DeepEqual(reAbs, want) {
		d, _ := json.Marshal(reAbs)
		failSig("tree-changed", sigTreeDiff(want, reAbs), string(d), string(out))
	}
	// C05: comments
	reComments := comments(re)
	if !minify {
		if !reflect.DeepEqual(srcComments, reComments) {
			failSig("comments-changed", sigComments(string(src), srcComments, reComments), fmt.Sprintf("%q -> %q", srcComments, reComments), string(out))
		}
	} else {
		var wantC []string
		if bytes.HasPrefix(src, []byte("#!")) && len(srcComments) > 0 {
			wantC = srcComments[:1]
		}
		if len(reComments) != len(wantC) || (len(wantC) == 1 && wantC[0] != reComments[0]) {
			fail("minify-comments", fmt.Sprintf("%q -> %q", srcComments, reComments), string(out))
		}
	}
	// C02: idempotency (KeepPadding is documented best-effort)
	if !keepPad {
		var buf2 bytes.Buffer
		if err := syntax.NewPrinter(printerOpts(row)...).Print(&buf2, re); err != nil {
			fail("reprint-error", err.Error(), string(out))
		} else if !bytes.Equal(buf2.Bytes(), out) {
			failSig("not-idempotent", sigDiffText(string(out), buf2.String()), buf2.String(), string(out))
		}
	}
	// C02 with Simplify first (what `shfmt -s` / `-mn` do): Print(Simplify(Parse(.))) must be a fixed point too.
	if !keepPad {
		if fs, err := parseSrc(src, lang); err == nil {
			syntax.Simplify(fs)
			var b1, b2 bytes.Buffer
			if err := syntax.NewPrinter(printerOpts(row)...).Print(&b1, fs); err != nil {
				fail("reprint-error", "after Simplify: "+err.Error(), "")
			} else if re1, err := parseSrc(b1.Bytes(), lang); err != nil {
				failSig("reparse-error", "after Simplify: "+sigParseError(err.Error(), b1.String()), err.Error(), b1.String())
			} else {
				syntax.Simplify(re1)
				if err := syntax.NewPrinter(printerOpts(row)...).Print(&b2, re1); err == nil && !bytes.Equal(b1.Bytes(), b2.Bytes()) {
					failSig("not-idempotent", "after Simplify: "+sigDiffText(b1.String(), b2.String()), b2.String(), b1.String())
				}
			}
		}
	}
	if v.Sub {
		subNodeChecks(f, re, lang, row, func(_ string, _ [2]int, kind, detail, out string) {
			sig := detail
			if i := strings.Index(detail, ": "); i > 0 && kind == "sub-reparse-error" {
				sig = detail[:i] + ": " + sigParseError(detail[i+2:], out)
			}
			failSig(kind, sig, detail, out)
		})
	}
	return
}
