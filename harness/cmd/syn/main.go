// Command syn: harness binary for the syntax-family properties (C01 C02 C05 C09 C10 C11 ...).
package main

import "verif/harness/hlib"

func main() { hlib.Main() }
