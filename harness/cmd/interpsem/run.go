package main

import (
	"bytes"
	"context"
	"encoding/json"
	"fmt"
	"io"
	"os"
	"runtime/debug"
	"strings"
	"sync"
	"time"

	"mvdan.cc/sh/v3/expand"
	"mvdan.cc/sh/v3/interp"
	"mvdan.cc/sh/v3/syntax"
	"verif/harness/hlib"
)

// One empty directory shared by all programs of this process: the generated programs never
// touch the file system (the model has no file redirections).
var (
	dirOnce   sync.Once
	sharedDir string
)

func emptyDir() string {
	dirOnce.Do(func() { sharedDir = hlib.FreshDir() })
	return sharedDir
}

// capBuffer keeps the first max bytes written to it and drops the rest.
type capBuffer struct {
	bytes.Buffer
	max int
}

func (c *capBuffer) Write(p []byte) (int, error) {
	if room := c.max - c.Buffer.Len(); room > 0 {
		if len(p) <= room {
			c.Buffer.Write(p)
		} else {
			c.Buffer.Write(p[:room])
		}
	}
	return len(p), nil
}

type runRes struct {
	Out     string `json:"out"`
	Status  int    `json:"status"`
	ParseE  string `json:"parse_error,omitempty"`
	RunE    string `json:"run_error,omitempty"`
	Timeout bool   `json:"timeout,omitempty"`
	Panic   string `json:"panic,omitempty"`
	Stack   string `json:"stack,omitempty"`
}

func parseBash(src string) (*syntax.File, error) {
	return syntax.NewParser(syntax.Variant(syntax.LangBash)).Parse(strings.NewReader(src), "")
}

// runFile runs an already parsed program in a fresh Runner (stdin empty, stderr dropped).
// When fresh is set the program gets a directory of its own (corpus programs touch files).
func runFile(file *syntax.File, timeout time.Duration, fresh bool) (res runRes) {
	dir := emptyDir()
	if fresh {
		dir = hlib.FreshDir()
		defer os.RemoveAll(dir)
	}
	out := capBuffer{max: 1 << 18} // a runaway program must not fill the memory: 256 KiB of stdout are kept
	env := []string{"PATH=/usr/local/sbin:/usr/local/bin:/usr/sbin:/usr/bin:/sbin:/bin",
		"HOME=" + dir, "TMPDIR=" + dir, "LC_ALL=C", "PWD=" + dir}
	r, err := interp.New(interp.StdIO(strings.NewReader(""), &out, io.Discard),
		interp.Dir(dir), interp.Env(expand.ListEnviron(env...)))
	if err != nil {
		res.RunE = "New: " + err.Error()
		res.Status = -2
		return res
	}
	ctx, cancel := context.WithTimeout(context.Background(), timeout)
	defer cancel()
	done := make(chan struct{})
	var runErr error
	var pan any
	var stack string
	go func() {
		defer close(done)
		defer func() {
			if rec := recover(); rec != nil {
				pan = rec
				stack = hlib.TrimStack(string(debug.Stack()))
			}
		}()
		runErr = r.Run(ctx, file)
	}()
	select {
	case <-done:
	case <-time.After(timeout + 5*time.Second):
		res.Timeout = true
		res.RunE = "Run did not return after cancellation"
		res.Status = -3
		res.Out = hlib.Latin1(out.Bytes())
		return res
	}
	if pan != nil {
		res.Panic = fmt.Sprint(pan)
		res.Stack = stack
		res.Status = -4
	} else if runErr != nil {
		if st, ok := interp.IsExitStatus(runErr); ok {
			res.Status = int(st)
		} else {
			res.RunE = runErr.Error()
			res.Status = -2
			if ctx.Err() != nil {
				res.Timeout = true
			}
		}
	}
	res.Out = hlib.Latin1(out.Bytes())
	return res
}

func runSrc(src string, timeout time.Duration, fresh bool) runRes {
	f, err := parseBash(src)
	if err != nil {
		return runRes{ParseE: err.Error(), Status: -1}
	}
	return runFile(f, timeout, fresh)
}

// engine "isrun": {"src": latin1, "abs": bool, "timeout_ms": n} -> runRes (+ "abs": projected tree)
func init() { hlib.Register("isrun", isRun) }

type isVec struct {
	Src       string `json:"src"`
	Abs       bool   `json:"abs"`
	TimeoutMs int    `json:"timeout_ms"`
	Fresh     bool   `json:"fresh"`
}

func isRun(raw json.RawMessage, _ []string) (any, error) {
	var v isVec
	if err := json.Unmarshal(raw, &v); err != nil {
		return nil, err
	}
	to := time.Duration(v.TimeoutMs) * time.Millisecond
	if to == 0 {
		to = 5 * time.Second
	}
	src := string(hlib.Unlatin1(v.Src))
	f, err := parseBash(src)
	if err != nil {
		return runRes{ParseE: err.Error(), Status: -1}, nil
	}
	var abs any
	if v.Abs {
		abs = Abs(f)
	}
	res := runFile(f, to, v.Fresh)
	if !v.Abs {
		return res, nil
	}
	return map[string]any{"out": res.Out, "status": res.Status, "run_error": res.RunE, "timeout": res.Timeout,
		"panic": res.Panic, "stack": res.Stack, "abs": abs}, nil
}
