package main

import (
	"bytes"
	"encoding/json"
	"go/ast"
	"go/parser"
	"go/token"
	"path/filepath"
	"strconv"
	"strings"
	"time"

	"mvdan.cc/sh/v3/syntax"
	"verif/harness/hlib"
)

// engine "fmtrun" (C03): parse src, print it under every option row, run original and every distinct
// printed text in the real interpreter.
// vector: {"src": latin1, "rows": [[indent, bits]...], "fresh": bool, "twice": bool, "timeout_ms": n, "simplify": bool}
// bits: 1 BinaryNextLine 2 SwitchCaseIndent 4 SpaceRedirects 8 KeepPadding 16 FunctionNextLine 32 Minify 64 SingleLine
// result: {"parse_error", "orig": runRes, "orig2": runRes, "builtins_only": bool,
//          "rows": [{"row", "text", "print_error", "reparse_error", "res": runRes, "same_as": index of an earlier identical text or -1 (=src)}]}
func init() { hlib.Register("fmtrun", fmtRun) }

type fmtVec struct {
	Src       string   `json:"src"`
	Rows      [][2]int `json:"rows"`
	Fresh     bool     `json:"fresh"`
	Twice     bool     `json:"twice"`
	TimeoutMs int      `json:"timeout_ms"`
	ReqBuilt  bool     `json:"require_builtins"`
}

type fmtRow struct {
	Row      [2]int  `json:"row"`
	Text     string  `json:"text"`
	PrintE   string  `json:"print_error,omitempty"`
	ReparseE string  `json:"reparse_error,omitempty"`
	Res      *runRes `json:"res,omitempty"`
	SameAs   int     `json:"same_as"` // -2: own result; -1: identical to src; >=0: identical to that row's text
}

func printerOpts(row [2]int) []syntax.PrinterOption {
	b := row[1]
	return []syntax.PrinterOption{
		syntax.Indent(uint(row[0])),
		syntax.BinaryNextLine(b&1 != 0),
		syntax.SwitchCaseIndent(b&2 != 0),
		syntax.SpaceRedirects(b&4 != 0),
		syntax.KeepPadding(b&8 != 0),
		syntax.FunctionNextLine(b&16 != 0),
		syntax.Minify(b&32 != 0),
		syntax.SingleLine(b&64 != 0),
	}
}

var builtinNames = map[string]bool{
	"echo": true, "printf": true, "true": true, "false": true, ":": true, "test": true, "[": true, "set": true,
	"shift": true, "unset": true, "read": true, "exit": true, "return": true, "break": true, "continue": true,
	"eval": true, "trap": true, "let": true, "shopt": true, "getopts": true, "wait": true,
}

// builtinsOnly reports whether every simple command of the program is a listed builtin or a function
// defined in the program itself, named by a literal word, and whether the program stays away from the
// file system and from parameters that differ between shells by design.
func builtinsOnly(f *syntax.File, src string) bool {
	for _, bad := range []string{"$$", "RANDOM", "SECONDS", "BASH", "PPID", "UID", "HOME", "PWD", "PATH", "LINENO", "SHLVL",
		"GOSH", "INTERP", "HOSTNAME", "OSTYPE", "FUNCNAME", "EPOCH", "SRANDOM", "IFS", "TMPDIR", "<(", ">(", "~", "*", "?", "[a", "[!",
		"$!", "$-", "$_", "$0", "help", "declare", "typeset", "export", "readonly", "alias", "source", "command", "type ", "&"} {
		if strings.Contains(src, bad) {
			return false
		}
	}
	funcs := map[string]bool{}
	ok := true
	syntax.Walk(f, func(n syntax.Node) bool {
		switch n := n.(type) {
		case *syntax.FuncDecl:
			if n.Name != nil {
				funcs[n.Name.Value] = true
			}
		case *syntax.Redirect:
			if n.Op != syntax.Hdoc && n.Op != syntax.DashHdoc && n.Op != syntax.WordHdoc {
				ok = false
			}
		}
		return true
	})
	syntax.Walk(f, func(n syntax.Node) bool {
		if c, isCall := n.(*syntax.CallExpr); isCall && len(c.Args) > 0 {
			name := c.Args[0].Lit()
			if name == "" || !(builtinNames[name] || funcs[name]) {
				ok = false
			}
		}
		return true
	})
	return ok
}

func fmtRun(raw json.RawMessage, _ []string) (any, error) {
	var v fmtVec
	if err := json.Unmarshal(raw, &v); err != nil {
		return nil, err
	}
	to := time.Duration(v.TimeoutMs) * time.Millisecond
	if to == 0 {
		to = 5 * time.Second
	}
	src := string(hlib.Unlatin1(v.Src))
	f, err := parseBash(src)
	if err != nil {
		return map[string]any{"parse_error": err.Error()}, nil
	}
	bo := builtinsOnly(f, src)
	if v.ReqBuilt && !bo {
		return map[string]any{"skipped": true}, nil
	}
	out := map[string]any{"builtins_only": bo}
	orig := runFile(f, to, v.Fresh)
	out["orig"] = orig
	if v.Twice {
		f2, _ := parseBash(src)
		out["orig2"] = runFile(f2, to, v.Fresh)
	}
	rows := make([]fmtRow, 0, len(v.Rows))
	for _, row := range v.Rows {
		fr := fmtRow{Row: row, SameAs: -2}
		// a fresh parse per row: printing must not depend on what an earlier Print or Run did to the tree
		fp, _ := parseBash(src)
		var buf bytes.Buffer
		if err := syntax.NewPrinter(printerOpts(row)...).Print(&buf, fp); err != nil {
			fr.PrintE = err.Error()
			rows = append(rows, fr)
			continue
		}
		text := buf.String()
		fr.Text = hlib.Latin1([]byte(text))
		if text == src {
			fr.SameAs = -1
			rows = append(rows, fr)
			continue
		}
		dup := false
		for j := range rows {
			if rows[j].PrintE == "" && rows[j].SameAs == -2 && rows[j].Text == fr.Text {
				fr.SameAs = j
				dup = true
				break
			}
		}
		if !dup {
			f3, err := parseBash(text)
			if err != nil {
				fr.ReparseE = err.Error()
			} else {
				r := runFile(f3, to, v.Fresh)
				fr.Res = &r
			}
		}
		rows = append(rows, fr)
	}
	out["rows"] = rows
	return out, nil
}

// engine "runtests": the programs of the repository's own interpreter tests (first field of every
// element of the runTest tables of interp/interp_test.go), extracted with go/parser at run time.
// vector: {"repo": "/repo", "file": "interp/interp_test.go", "vars": ["runTests", ...]} -> {"programs": [latin1...]}
func init() { hlib.Register("runtests", runTestsEngine) }

func constStr(e ast.Expr) (string, bool) {
	switch e := e.(type) {
	case *ast.BasicLit:
		if e.Kind != token.STRING {
			return "", false
		}
		s, err := strconv.Unquote(e.Value)
		return s, err == nil
	case *ast.ParenExpr:
		return constStr(e.X)
	case *ast.BinaryExpr:
		if e.Op != token.ADD {
			return "", false
		}
		a, ok1 := constStr(e.X)
		b, ok2 := constStr(e.Y)
		return a + b, ok1 && ok2
	}
	return "", false
}

func runTestsEngine(raw json.RawMessage, _ []string) (any, error) {
	var v struct {
		Repo string   `json:"repo"`
		File string   `json:"file"`
		Vars []string `json:"vars"`
	}
	if err := json.Unmarshal(raw, &v); err != nil {
		return nil, err
	}
	want := map[string]bool{}
	for _, n := range v.Vars {
		want[n] = true
	}
	fset := token.NewFileSet()
	f, err := parser.ParseFile(fset, filepath.Join(v.Repo, v.File), nil, parser.SkipObjectResolution)
	if err != nil {
		return nil, err
	}
	var progs []string
	seen := map[string]bool{}
	for _, d := range f.Decls {
		gd, ok := d.(*ast.GenDecl)
		if !ok || gd.Tok != token.VAR {
			continue
		}
		for _, sp := range gd.Specs {
			vs, ok := sp.(*ast.ValueSpec)
			if !ok || len(vs.Names) != 1 || !want[vs.Names[0].Name] || len(vs.Values) != 1 {
				continue
			}
			cl, ok := vs.Values[0].(*ast.CompositeLit)
			if !ok {
				continue
			}
			for _, el := range cl.Elts {
				ecl, ok := el.(*ast.CompositeLit)
				if !ok || len(ecl.Elts) == 0 {
					continue
				}
				first := ecl.Elts[0]
				if kv, ok := first.(*ast.KeyValueExpr); ok {
					first = kv.Value
				}
				if s, ok := constStr(first); ok && !seen[s] {
					seen[s] = true
					progs = append(progs, hlib.Latin1([]byte(s)))
				}
			}
		}
	}
	return map[string]any{"programs": progs}, nil
}
