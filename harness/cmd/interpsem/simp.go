package main

import (
	"bytes"
	"encoding/json"
	"reflect"
	"time"

	"mvdan.cc/sh/v3/syntax"
	"verif/harness/hlib"
)

// engine "simp" (C04): parse src, project the tree, call syntax.Simplify, project again, print the
// simplified tree, re-parse the text, and run original and simplified text in the real interpreter.
// vector: {"src": latin1, "timeout_ms": n}
// result: {"abs0", "abs1", "changed": bool returned by Simplify, "text", "print_error", "reparse_error",
//          "reparse_same": Abs(reparsed) == abs1, "orig": runRes, "simp": runRes}
func init() { hlib.Register("simp", simpEngine) }

func simpEngine(raw json.RawMessage, _ []string) (any, error) {
	var v struct {
		Src       string `json:"src"`
		TimeoutMs int    `json:"timeout_ms"`
		NoAbs     bool   `json:"noabs"`
	}
	if err := json.Unmarshal(raw, &v); err != nil {
		return nil, err
	}
	to := time.Duration(v.TimeoutMs) * time.Millisecond
	if to == 0 {
		to = 3 * time.Second
	}
	src := string(hlib.Unlatin1(v.Src))
	f, err := parseBash(src)
	if err != nil {
		return map[string]any{"parse_error": err.Error()}, nil
	}
	abs0 := Abs(f)
	// does the tree print and re-parse before Simplify touches it?
	var buf0 bytes.Buffer
	origPrintE := ""
	if err := syntax.NewPrinter().Print(&buf0, f); err != nil {
		origPrintE = err.Error()
	} else if f1, err := parseBash(buf0.String()); err != nil {
		origPrintE = err.Error()
	} else if !reflect.DeepEqual(Abs(f1), abs0) {
		origPrintE = "re-parses to a different tree"
	}
	changed := syntax.Simplify(f)
	abs1 := Abs(f)
	out := map[string]any{"changed": changed, "tree_changed": !reflect.DeepEqual(abs0, abs1), "orig_print_error": origPrintE}
	if !v.NoAbs {
		out["abs0"], out["abs1"] = abs0, abs1
	}
	var buf bytes.Buffer
	if err := syntax.NewPrinter().Print(&buf, f); err != nil {
		out["print_error"] = err.Error()
	} else {
		text := buf.String()
		out["text"] = hlib.Latin1([]byte(text))
		f2, err := parseBash(text)
		if err != nil {
			out["reparse_error"] = err.Error()
		} else {
			out["reparse_same"] = reflect.DeepEqual(Abs(f2), abs1)
			out["simp"] = runFile(f2, to, false)
		}
	}
	f0, _ := parseBash(src)
	out["orig"] = runFile(f0, to, false)
	return out, nil
}
