// Command interpsem: harness binary for C26 (programs vs ShInterp vs bash), C03 (formatting keeps
// behaviour) and C04 (Simplify keeps behaviour).  Engines: isrun, fmtrun, simp, runtests (+ generic interp).
package main

import "verif/harness/hlib"

func main() { hlib.Main() }
