// Command core: harness binary for the C33/C34 engines plus the generic "interp" engine.
package main

import "verif/harness/hlib"

func main() { hlib.Main() }
