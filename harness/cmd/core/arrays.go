package main

import (
	"encoding/json"
	"fmt"
	"verif/harness/hlib"

	"mvdan.cc/sh/v3/expand"
)

// C33 (a): one EDGE of ShArrays' state graph = one call of the real helper functions.
func init() { hlib.Register("arrayrep", arrayRepEngine) }

type arrRep struct {
	List []string `json:"list"`
	Ix   []int    `json:"ix"`
}

type arrEdge struct {
	From arrRep `json:"from"`
	Act  string `json:"act"`
	Args []any  `json:"args"`
	To   arrRep `json:"to"`
}

func goRep(r arrRep, extraCap int) ([]string, []int) {
	list := make([]string, len(r.List), len(r.List)+extraCap)
	copy(list, r.List)
	var ix []int
	if len(r.Ix) > 0 { // <<>> in the spec is Go's nil
		ix = make([]int, len(r.Ix), len(r.Ix)+extraCap)
		copy(ix, r.Ix)
	}
	return list, ix
}

func arrayRepEngine(raw json.RawMessage, _ []string) (any, error) {
	var e arrEdge
	if err := json.Unmarshal(raw, &e); err != nil {
		return nil, err
	}
	var outs []any
	// with and without spare capacity (append/insert take different paths)
	for _, extra := range []int{0, 3} {
		list, ix := goRep(e.From, extra)
		max := expand.VerifIndexedMax(list, ix)
		switch e.Act {
		case "set":
			list, ix = expand.VerifSetIndexedElem(list, ix, int(e.Args[0].(float64)), e.Args[1].(string))
		case "setneg":
			k := max + 1 - int(e.Args[0].(float64))
			list, ix = expand.VerifSetIndexedElem(list, ix, k, e.Args[1].(string))
		case "append":
			list, ix = expand.VerifSetIndexedElem(list, ix, max+1, e.Args[0].(string))
		case "unset":
			list, ix = expand.VerifDeleteIndexedElem(list, ix, int(e.Args[0].(float64)))
		case "clear", "assign2", "appendstr":
			// no helper involved; covered at the shell level
			return map[string]any{"skip": true}, nil
		default:
			return nil, fmt.Errorf("unknown act %q", e.Act)
		}
		if list == nil {
			list = []string{}
		}
		outs = append(outs, map[string]any{"list": list, "ix": ix, "ixnil": ix == nil, "max": expand.VerifIndexedMax(list, ix)})
	}
	return map[string]any{"outs": outs}, nil
}
