package main

import (
	"encoding/json"
	"slices"
	"verif/harness/hlib"

	"mvdan.cc/sh/v3/expand"
)

// C34: expand.ListEnviron / FuncEnviron.
func init() { hlib.Register("environ", environEngine) }

type environVec struct {
	List []([]any) `json:"list"`
	Gets []struct {
		Name []any `json:"name"`
	} `json:"gets"`
}

func environEngine(raw json.RawMessage, _ []string) (any, error) {
	var v environVec
	if err := json.Unmarshal(raw, &v); err != nil {
		return nil, err
	}
	pairs := make([]string, len(v.List))
	for i, p := range v.List {
		pairs[i] = hlib.Text(p)
	}
	orig := slices.Clone(pairs)
	env := expand.ListEnviron(pairs...)
	res := map[string]any{}
	res["input_mutated"] = !slices.Equal(orig, pairs)
	var each []any
	env.Each(func(name string, vr expand.Variable) bool {
		each = append(each, map[string]any{"name": hlib.Untext(name), "val": hlib.Untext(vr.Str),
			"ok": vr.Set && vr.Exported && vr.Kind == expand.String})
		return true
	})
	if each == nil {
		each = []any{}
	}
	res["each"] = each
	// early exit: Each must stop as soon as the callback returns false
	stops := []int{}
	for k := 1; k <= len(each); k++ {
		n := 0
		env.Each(func(string, expand.Variable) bool { n++; return n < k })
		stops = append(stops, n)
	}
	res["stops"] = stops
	var gets []any
	for _, g := range v.Gets {
		name := hlib.Text(g.Name)
		vr := env.Get(name)
		gets = append(gets, map[string]any{"name": hlib.Untext(name), "set": vr.IsSet(), "val": hlib.Untext(vr.Str),
			"ok": !vr.Set || (vr.Exported && vr.Kind == expand.String)})
	}
	res["gets"] = gets
	// FuncEnviron over the same map: empty value means unset.
	fe := expand.FuncEnviron(func(name string) string { return env.Get(name).Str })
	var fgets []any
	for _, g := range v.Gets {
		name := hlib.Text(g.Name)
		vr := fe.Get(name)
		fgets = append(fgets, map[string]any{"set": vr.IsSet(), "val": hlib.Untext(vr.Str)})
	}
	res["fgets"] = fgets
	return res, nil
}
