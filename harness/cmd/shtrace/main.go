// shtrace: a minimal system-call tracer for C35 (x86_64 Linux).
//
//	shtrace -o LOG [-kill NAME:N] -- prog args...
//
// Runs prog under ptrace (all threads), writes one strace-compatible line per file-related
// system call to LOG (same text format lib/props/shfmtlib.py parses), and -- unlike
// `strace -e inject=...:when=N`, whose counter is per thread -- kills the whole process with
// SIGKILL at the entry of the N-th call of NAME counted over ALL threads, before the call
// executes.  The killed call is logged as `NAME(args <unfinished ...>) = ?`.
// It decodes nothing it does not need: a system call that is neither in the decode table nor in
// the list of calls that cannot touch files is logged as `unknown_<nr>(...)`, which the driver
// treats as "cannot follow" (INCONCLUSIVE), never silently.
package main

import (
	"bufio"
	"fmt"
	"os"
	"runtime"
	"strconv"
	"strings"
	"syscall"
	"unsafe"
)

func init() { runtime.LockOSThread() } // all ptrace requests must come from one thread

const (
	optSysGood   = 0x1
	optFork      = 0x2
	optVfork     = 0x4
	optClone     = 0x8
	optExec      = 0x10
	optExitKill  = 0x100000
	getSyscallInfo = 0x420e
)

type sc struct {
	name string
	sig  string
}

// argument kinds: f fd, d dirfd, p path, O open flags, o octal mode, i int, x pointer/other,
// P mmap prot, M mmap flags, C clone flags, F fcntl cmd, U unlinkat flags, s struct, c clone3 args
var table = map[uint64]sc{
	0: {"read", "fxi"}, 1: {"write", "fxi"}, 2: {"open", "pOo"}, 3: {"close", "f"}, 4: {"stat", "ps"},
	5: {"fstat", "fs"}, 6: {"lstat", "ps"}, 8: {"lseek", "fii"}, 9: {"mmap", "xiPMfi"}, 16: {"ioctl", "fxx"},
	17: {"pread64", "fxii"}, 18: {"pwrite64", "fxii"}, 19: {"readv", "fxi"}, 20: {"writev", "fxi"},
	21: {"access", "pi"}, 32: {"dup", "f"}, 33: {"dup2", "ff"}, 40: {"sendfile", "ffxi"},
	56: {"clone", "Cxxxx"}, 57: {"fork", ""}, 58: {"vfork", ""}, 59: {"execve", "pxx"},
	72: {"fcntl", "fFx"}, 73: {"flock", "fi"}, 74: {"fsync", "f"}, 75: {"fdatasync", "f"},
	76: {"truncate", "pi"}, 77: {"ftruncate", "fi"}, 78: {"getdents", "fxi"}, 79: {"getcwd", "xi"},
	80: {"chdir", "p"}, 81: {"fchdir", "f"}, 82: {"rename", "pp"}, 83: {"mkdir", "po"}, 84: {"rmdir", "p"},
	85: {"creat", "po"}, 86: {"link", "pp"}, 87: {"unlink", "p"}, 88: {"symlink", "pp"},
	89: {"readlink", "pxi"}, 90: {"chmod", "po"}, 91: {"fchmod", "fo"}, 92: {"chown", "pii"},
	93: {"fchown", "fii"}, 94: {"lchown", "pii"}, 95: {"umask", "o"}, 132: {"utime", "px"},
	133: {"mknod", "poi"}, 137: {"statfs", "px"}, 138: {"fstatfs", "fx"}, 161: {"chroot", "p"},
	188: {"setxattr", "ppxii"}, 189: {"lsetxattr", "ppxii"}, 190: {"fsetxattr", "fpxii"},
	191: {"getxattr", "ppxi"}, 192: {"lgetxattr", "ppxi"}, 193: {"fgetxattr", "fpxi"},
	194: {"listxattr", "pxi"}, 195: {"llistxattr", "pxi"}, 196: {"flistxattr", "fxi"},
	197: {"removexattr", "pp"}, 198: {"lremovexattr", "pp"}, 199: {"fremovexattr", "fp"},
	217: {"getdents64", "fxi"}, 221: {"fadvise64", "fiii"}, 233: {"epoll_ctl", "fifx"}, 235: {"utimes", "px"},
	257: {"openat", "dpOo"}, 258: {"mkdirat", "dpo"}, 259: {"mknodat", "dpoi"}, 260: {"fchownat", "dpiii"},
	261: {"futimesat", "dpx"}, 262: {"newfstatat", "dpsA"}, 263: {"unlinkat", "dpU"}, 264: {"renameat", "dpdp"},
	265: {"linkat", "dpdpi"}, 266: {"symlinkat", "pdp"}, 267: {"readlinkat", "dpxi"}, 268: {"fchmodat", "dpo"},
	269: {"faccessat", "dpi"}, 275: {"splice", "fxfxii"}, 276: {"tee", "ffii"}, 277: {"sync_file_range", "fiii"},
	280: {"utimensat", "dpxi"}, 285: {"fallocate", "fiii"}, 292: {"dup3", "ffi"}, 295: {"preadv", "fxi"},
	296: {"pwritev", "fxi"}, 316: {"renameat2", "dpdpi"}, 326: {"copy_file_range", "fxfxii"},
	327: {"preadv2", "fxi"}, 328: {"pwritev2", "fxi"}, 332: {"statx", "dpiix"}, 435: {"clone3", "c"},
	437: {"openat2", "dpxi"}, 439: {"faccessat2", "dpii"}, 452: {"fchmodat2", "dpoi"},
	60: {"exit", "i"}, 231: {"exit_group", "i"},
}

// calls that cannot create, modify or rename files and take no path: not logged
var harmless = map[uint64]bool{}

func init() {
	for _, n := range []uint64{7, 10, 11, 12, 13, 14, 15, 22, 23, 24, 25, 27, 28, 34, 35, 37, 38, 39, 41, 42, 43, 44, 45, 46, 47,
		48, 49, 50, 51, 52, 53, 54, 55, 61, 62, 63, 96, 97, 98, 99, 100, 102, 104, 107, 108, 109, 110, 111, 112, 121, 124,
		125, 127, 128, 129, 130, 131, 157, 158, 186, 200, 201, 202, 203, 204, 213, 218, 219, 222, 223, 224, 225, 226,
		228, 229, 230, 232, 234, 247, 270, 271, 273, 274, 281, 283, 284, 286, 287, 288, 289, 290, 291, 293, 302, 309,
		318, 324, 334, 424, 434, 441, 449} {
		harmless[n] = true
	}
}

var errnoNames = map[int64]string{1: "EPERM", 2: "ENOENT", 4: "EINTR", 5: "EIO", 9: "EBADF", 11: "EAGAIN", 12: "ENOMEM",
	13: "EACCES", 14: "EFAULT", 16: "EBUSY", 17: "EEXIST", 18: "EXDEV", 20: "ENOTDIR", 21: "EISDIR", 22: "EINVAL",
	24: "EMFILE", 25: "ENOTTY", 26: "ETXTBSY", 28: "ENOSPC", 29: "ESPIPE", 30: "EROFS", 36: "ENAMETOOLONG", 38: "ENOSYS",
	39: "ENOTEMPTY", 40: "ELOOP", 61: "ENODATA", 95: "EOPNOTSUPP", 512: "ERESTARTSYS", 513: "ERESTARTNOINTR",
	514: "ERESTARTNOHAND", 516: "ERESTART_RESTARTBLOCK"}

var openFlags = []struct {
	bit  uint64
	name string
}{{0o100, "O_CREAT"}, {0o200, "O_EXCL"}, {0o400, "O_NOCTTY"}, {0o1000, "O_TRUNC"}, {0o2000, "O_APPEND"},
	{0o4000, "O_NONBLOCK"}, {0o10000, "O_DSYNC"}, {0o40000, "O_DIRECT"}, {0o100000, "O_LARGEFILE"},
	{0o200000, "O_DIRECTORY"}, {0o400000, "O_NOFOLLOW"}, {0o1000000, "O_NOATIME"}, {0o2000000, "O_CLOEXEC"},
	{0o4000000, "O_SYNC_HI"}, {0o10000000, "O_PATH"}, {0o20000000, "O_TMPFILE_HI"}}

func fmtOpen(v uint64) string {
	parts := []string{[]string{"O_RDONLY", "O_WRONLY", "O_RDWR", "O_ACCMODE"}[v&3]}
	rest := v &^ 3
	for _, f := range openFlags {
		if rest&f.bit != 0 {
			parts = append(parts, f.name)
			rest &^= f.bit
		}
	}
	if rest != 0 {
		parts = append(parts, fmt.Sprintf("0x%x", rest))
	}
	return strings.Join(parts, "|")
}

func readString(pid int, addr uint64) string {
	if addr == 0 {
		return "NULL"
	}
	f, err := os.Open(fmt.Sprintf("/proc/%d/mem", pid))
	if err != nil {
		return "?"
	}
	defer f.Close()
	var out []byte
	buf := make([]byte, 256)
	for len(out) < 8192 {
		n, _ := f.ReadAt(buf, int64(addr)+int64(len(out)))
		if n <= 0 {
			break
		}
		for i := 0; i < n; i++ {
			if buf[i] == 0 {
				return quote(append(out, buf[:i]...))
			}
		}
		out = append(out, buf[:n]...)
	}
	return quote(out)
}

func quote(b []byte) string {
	var sb strings.Builder
	sb.WriteByte('"')
	for _, c := range b {
		switch {
		case c == '"' || c == '\\':
			sb.WriteByte('\\')
			sb.WriteByte(c)
		case c >= 0x20 && c < 0x7f:
			sb.WriteByte(c)
		default:
			fmt.Fprintf(&sb, "\\%03o", c)
		}
	}
	sb.WriteByte('"')
	return sb.String()
}

func fmtArgs(pid int, sig string, a [6]uint64) string {
	var parts []string
	for i, k := range sig {
		v := a[i]
		switch k {
		case 'f':
			parts = append(parts, strconv.FormatInt(int64(int32(v)), 10))
		case 'd':
			if int32(v) == -100 {
				parts = append(parts, "AT_FDCWD")
			} else {
				parts = append(parts, strconv.FormatInt(int64(int32(v)), 10))
			}
		case 'p':
			parts = append(parts, readString(pid, v))
		case 'O':
			parts = append(parts, fmtOpen(v&0xffffffff))
		case 'o':
			parts = append(parts, fmt.Sprintf("0%o", v&0xffff))
		case 'i':
			parts = append(parts, strconv.FormatInt(int64(v), 10))
		case 'P':
			s := "PROT_NONE"
			if v != 0 {
				var pp []string
				for _, f := range []struct {
					b uint64
					n string
				}{{1, "PROT_READ"}, {2, "PROT_WRITE"}, {4, "PROT_EXEC"}} {
					if v&f.b != 0 {
						pp = append(pp, f.n)
					}
				}
				s = strings.Join(pp, "|")
			}
			parts = append(parts, s)
		case 'M':
			var pp []string
			for _, f := range []struct {
				b uint64
				n string
			}{{1, "MAP_SHARED"}, {2, "MAP_PRIVATE"}, {0x10, "MAP_FIXED"}, {0x20, "MAP_ANONYMOUS"}} {
				if v&f.b != 0 {
					pp = append(pp, f.n)
				}
			}
			pp = append(pp, fmt.Sprintf("0x%x", v))
			parts = append(parts, strings.Join(pp, "|"))
		case 'C':
			parts = append(parts, "flags="+cloneFlags(v))
		case 'c':
			var b [8]byte
			f, err := os.Open(fmt.Sprintf("/proc/%d/mem", pid))
			fl := uint64(0)
			if err == nil {
				f.ReadAt(b[:], int64(v))
				f.Close()
				for j := 7; j >= 0; j-- {
					fl = fl<<8 | uint64(b[j])
				}
			}
			parts = append(parts, "{flags="+cloneFlags(fl)+"}")
		case 'F':
			switch v {
			case 0:
				parts = append(parts, "F_DUPFD")
			case 1030:
				parts = append(parts, "F_DUPFD_CLOEXEC")
			default:
				parts = append(parts, fmt.Sprintf("F_%d", v))
			}
		case 'U':
			if v&0x200 != 0 {
				parts = append(parts, "AT_REMOVEDIR")
			} else {
				parts = append(parts, "0")
			}
		case 'A':
			var pp []string
			if v&0x100 != 0 {
				pp = append(pp, "AT_SYMLINK_NOFOLLOW")
			}
			if v&0x1000 != 0 {
				pp = append(pp, "AT_EMPTY_PATH")
			}
			if len(pp) == 0 {
				pp = append(pp, "0")
			}
			parts = append(parts, strings.Join(pp, "|"))
		case 's':
			parts = append(parts, "{...}")
		default:
			parts = append(parts, fmt.Sprintf("0x%x", v))
		}
	}
	return strings.Join(parts, ", ")
}

func cloneFlags(v uint64) string {
	var pp []string
	for _, f := range []struct {
		b uint64
		n string
	}{{0x100, "CLONE_VM"}, {0x200, "CLONE_FS"}, {0x400, "CLONE_FILES"}, {0x800, "CLONE_SIGHAND"}, {0x10000, "CLONE_THREAD"}} {
		if v&f.b != 0 {
			pp = append(pp, f.n)
		}
	}
	pp = append(pp, fmt.Sprintf("0x%x", v))
	return strings.Join(pp, "|")
}

type info struct {
	op   uint8
	nr   uint64
	args [6]uint64
	rval int64
	isErr bool
}

func syscallInfo(tid int) (info, error) {
	var buf [88]byte
	_, _, e := syscall.Syscall6(syscall.SYS_PTRACE, getSyscallInfo, uintptr(tid), uintptr(len(buf)), uintptr(unsafe.Pointer(&buf[0])), 0, 0)
	if e != 0 {
		return info{}, e
	}
	u64 := func(off int) uint64 {
		var v uint64
		for j := 7; j >= 0; j-- {
			v = v<<8 | uint64(buf[off+j])
		}
		return v
	}
	in := info{op: buf[0]}
	switch in.op {
	case 1, 3:
		in.nr = u64(24)
		for i := 0; i < 6; i++ {
			in.args[i] = u64(32 + 8*i)
		}
	case 2:
		in.rval = int64(u64(24))
		in.isErr = buf[32] != 0
	}
	return in, nil
}

type pending struct {
	text string // "name(args"
	log  bool
}

func main() {
	args := os.Args[1:]
	logPath, killName, killN := "", "", 0
	for len(args) > 0 && args[0] != "--" {
		switch args[0] {
		case "-o":
			logPath = args[1]
			args = args[2:]
		case "-kill":
			p := strings.SplitN(args[1], ":", 2)
			killName = p[0]
			killN, _ = strconv.Atoi(p[1])
			args = args[2:]
		default:
			fmt.Fprintln(os.Stderr, "shtrace: unknown option", args[0])
			os.Exit(125)
		}
	}
	if len(args) < 2 || logPath == "" {
		fmt.Fprintln(os.Stderr, "usage: shtrace -o LOG [-kill NAME:N] -- prog args...")
		os.Exit(125)
	}
	prog := args[1:]
	lf, err := os.Create(logPath)
	if err != nil {
		fmt.Fprintln(os.Stderr, "shtrace:", err)
		os.Exit(125)
	}
	w := bufio.NewWriter(lf)
	defer func() { w.Flush(); lf.Close() }()

	pid, err := syscall.ForkExec(prog[0], prog, &syscall.ProcAttr{Env: os.Environ(), Files: []uintptr{0, 1, 2},
		Sys: &syscall.SysProcAttr{Ptrace: true}})
	if err != nil {
		fmt.Fprintln(os.Stderr, "shtrace: exec:", err)
		w.Flush()
		os.Exit(125)
	}
	var ws syscall.WaitStatus
	if _, err := syscall.Wait4(pid, &ws, 0, nil); err != nil || !ws.Stopped() {
		fmt.Fprintln(os.Stderr, "shtrace: no initial stop")
		os.Exit(125)
	}
	if err := syscall.PtraceSetOptions(pid, optSysGood|optFork|optVfork|optClone|optExec|optExitKill); err != nil {
		fmt.Fprintln(os.Stderr, "shtrace: setoptions:", err)
		os.Exit(125)
	}
	fmt.Fprintf(w, "%d execve(%s, [...], [...]) = 0\n", pid, quote([]byte(prog[0])))
	syscall.PtraceSyscall(pid, 0)

	pend := map[int]pending{}
	counts := map[string]int{}
	exitCode := 0
	killed := false
	live := map[int]bool{pid: true}
	for len(live) > 0 {
		tid, err := syscall.Wait4(-1, &ws, syscall.WALL, nil)
		if err != nil {
			if err == syscall.EINTR {
				continue
			}
			break
		}
		switch {
		case ws.Exited():
			fmt.Fprintf(w, "%d +++ exited with %d +++\n", tid, ws.ExitStatus())
			if tid == pid {
				exitCode = ws.ExitStatus()
			}
			delete(live, tid)
		case ws.Signaled():
			fmt.Fprintf(w, "%d +++ killed by %s +++\n", tid, sigName(ws.Signal()))
			if tid == pid {
				exitCode = 128 + int(ws.Signal())
			}
			delete(live, tid)
		case ws.Stopped():
			live[tid] = true
			sig := ws.StopSignal()
			if sig == syscall.SIGTRAP|0x80 {
				in, err := syscallInfo(tid)
				if err != nil {
					syscall.PtraceSyscall(tid, 0)
					continue
				}
				if in.op == 1 { // entry
					ent, known := table[in.nr]
					if !known {
						if harmless[in.nr] {
							pend[tid] = pending{}
						} else {
							pend[tid] = pending{text: fmt.Sprintf("unknown_%d(0x%x, 0x%x, 0x%x", in.nr, in.args[0], in.args[1], in.args[2]), log: true}
						}
					} else {
						text := ent.name + "(" + fmtArgs(pid, ent.sig, in.args)
						pend[tid] = pending{text: text, log: true}
						counts[ent.name]++
						if !killed && killName == ent.name && counts[ent.name] == killN {
							fmt.Fprintf(w, "%d %s <unfinished ...>) = ?\n", tid, text)
							delete(pend, tid)
							killed = true
							syscall.Kill(pid, syscall.SIGKILL)
						}
					}
				} else if in.op == 2 { // exit
					p, ok := pend[tid]
					delete(pend, tid)
					if ok && p.log {
						if in.isErr {
							e := -in.rval
							n, has := errnoNames[e]
							if !has {
								n = fmt.Sprintf("E%d", e)
							}
							fmt.Fprintf(w, "%d %s) = -1 %s (errno %d)\n", tid, p.text, n, e)
						} else {
							fmt.Fprintf(w, "%d %s) = %d\n", tid, p.text, in.rval)
						}
					}
				}
				syscall.PtraceSyscall(tid, 0)
			} else if sig == syscall.SIGTRAP && ws.TrapCause() > 0 {
				syscall.PtraceSyscall(tid, 0) // clone/fork/exec event
			} else if sig == syscall.SIGSTOP {
				syscall.PtraceSyscall(tid, 0) // first stop of an auto-attached thread
			} else {
				syscall.PtraceSyscall(tid, int(sig)) // deliver the signal
			}
		}
	}
	w.Flush()
	lf.Close()
	if killed {
		os.Exit(137)
	}
	os.Exit(exitCode)
}

func sigName(s syscall.Signal) string {
	if s == syscall.SIGKILL {
		return "SIGKILL"
	}
	return fmt.Sprintf("SIG%d", int(s))
}
