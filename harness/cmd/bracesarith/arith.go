package main

import (
	"bytes"
	"context"
	"encoding/json"
	"fmt"
	"runtime/debug"
	"strings"
	"sync"
	"time"

	"verif/harness/hlib"

	"mvdan.cc/sh/v3/expand"
	"mvdan.cc/sh/v3/interp"
	"mvdan.cc/sh/v3/syntax"
)

// C20: run a small arithmetic program in the real interpreter.  Same contract as the generic
// "interp" engine ({"src"} -> {out, err, status, parse_error, run_error, panic}) but all programs of
// one process share one scratch directory: the programs only use builtins and variables, and
// creating a directory per program costs milliseconds in this sandbox.
func init() { hlib.Register("arithprog", arithProgEngine) }

var (
	arithDirOnce sync.Once
	arithDir     string
)

func arithProgEngine(raw json.RawMessage, _ []string) (any, error) {
	var v struct {
		Src string `json:"src"`
	}
	if err := json.Unmarshal(raw, &v); err != nil {
		return nil, err
	}
	arithDirOnce.Do(func() { arithDir = hlib.FreshDir() })
	res := map[string]any{}
	p := syntax.NewParser(syntax.Variant(syntax.LangBash))
	file, err := p.Parse(strings.NewReader(v.Src), "")
	if err != nil {
		res["parse_error"] = err.Error()
		res["status"] = -1
		return res, nil
	}
	var out, errb bytes.Buffer
	env := []string{"PATH=/usr/bin:/bin", "HOME=" + arithDir, "TMPDIR=" + arithDir, "LC_ALL=C.UTF-8", "PWD=" + arithDir}
	r, err := interp.New(interp.StdIO(strings.NewReader(""), &out, &errb), interp.Dir(arithDir),
		interp.Env(expand.ListEnviron(env...)))
	if err != nil {
		return nil, err
	}
	ctx, cancel := context.WithTimeout(context.Background(), 5*time.Second)
	defer cancel()
	status := 0
	func() {
		defer func() {
			if rec := recover(); rec != nil {
				res["panic"] = fmt.Sprint(rec)
				res["stack"] = hlib.TrimStack(string(debug.Stack()))
				status = -4
			}
		}()
		if err := r.Run(ctx, file); err != nil {
			if st, ok := interp.IsExitStatus(err); ok {
				status = int(st)
			} else {
				res["run_error"] = err.Error()
				status = -2
			}
		}
	}()
	if ctx.Err() != nil {
		res["timeout"] = true
	}
	res["out"] = hlib.Latin1(out.Bytes())
	e := hlib.Latin1(errb.Bytes())
	if len(e) > 300 {
		e = e[:300]
	}
	res["err"] = e
	res["status"] = status
	return res, nil
}

