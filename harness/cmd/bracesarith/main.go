// Command bracesarith: harness binary for the C16 (brace expansion) and C20 (arithmetic)
// engines plus the generic "interp" engine.
package main

import "verif/harness/hlib"

func main() { hlib.Main() }
