package main

import (
	"bytes"
	"encoding/json"
	"fmt"
	"runtime/debug"
	"strings"

	"verif/harness/hlib"

	"mvdan.cc/sh/v3/expand"
	"mvdan.cc/sh/v3/syntax"
)

// C16: syntax.SplitBraces, expand.BracesSeq, expand.Fields on one word.
//
// Vector: {"w": text}  (text = array of 1-char strings, or "s": plain string)
// Result: {
//   "parse_error": "...",            the parser did not read the text as exactly one word
//   "has": bool,                     result of SplitBraces
//   "printed": str,                  syntax.Printer on the split word (the real printer only)
//   "printed_struct": str,           the split word with BraceExp parts rendered structurally
//                                    ("{" elems joined by "," or ".." "}"), other parts by the printer
//   "nbrace": n,                     number of top-level BraceExp parts after SplitBraces
//   "exp": [str], "exp_err": "...",  BracesSeq on the split word, each word printed
//   "fields": [str], "fields_err":   expand.Fields on a fresh parse of the word (a=A b=B $1=P $2=Q)
// }
func init() { hlib.Register("braces", bracesEngine) }

type bracesVec struct {
	W []any  `json:"w"`
	S string `json:"s"`
}

func parseWord(src string) (*syntax.Word, string) {
	p := syntax.NewParser(syntax.Variant(syntax.LangBash))
	var words []*syntax.Word
	err := p.Words(strings.NewReader(src), func(w *syntax.Word) bool {
		words = append(words, w)
		return true
	})
	if err != nil {
		return nil, err.Error()
	}
	if len(words) != 1 {
		return nil, "not one word"
	}
	return words[0], ""
}

// printParts renders word parts. structural=true: literals by their Value, BraceExp as
// "{" elems joined by "," or ".." "}", every other part through the real printer.
// structural=false: the whole word through the real syntax.Printer.
func printParts(parts []syntax.WordPart, structural bool) string {
	var sb strings.Builder
	pr := syntax.NewPrinter()
	if !structural {
		var buf bytes.Buffer
		pr.Print(&buf, &syntax.Word{Parts: parts})
		return buf.String()
	}
	for _, part := range parts {
		switch x := part.(type) {
		case *syntax.BraceExp:
			sb.WriteByte('{')
			for k, e := range x.Elems {
				if k > 0 {
					if x.Sequence {
						sb.WriteString("..")
					} else {
						sb.WriteByte(',')
					}
				}
				sb.WriteString(printParts(e.Parts, true))
			}
			sb.WriteByte('}')
		case *syntax.Lit:
			sb.WriteString(x.Value)
		default:
			var buf bytes.Buffer
			pr.Print(&buf, &syntax.Word{Parts: []syntax.WordPart{part}})
			sb.WriteString(buf.String())
		}
	}
	return sb.String()
}

func bracesEngine(raw json.RawMessage, _ []string) (any, error) {
	var v bracesVec
	if err := json.Unmarshal(raw, &v); err != nil {
		return nil, err
	}
	src := v.S
	if v.W != nil {
		src = hlib.Text(v.W)
	}
	res := map[string]any{}
	word, perr := parseWord(src)
	if word == nil {
		res["parse_error"] = perr
		return res, nil
	}
	res["printed0"] = printParts(word.Parts, false)
	has := syntax.SplitBraces(word)
	res["has"] = has
	nb := 0
	for _, p := range word.Parts {
		if _, ok := p.(*syntax.BraceExp); ok {
			nb++
		}
	}
	res["nbrace"] = nb
	if len(word.Parts) > 0 {
		// the real printer on the split word; it may panic on BraceExp nodes (reported separately)
		func() {
			defer func() {
				if rec := recover(); rec != nil {
					res["printed_panic"] = fmt.Sprint(rec) + " @ " + hlib.TrimStack(string(debug.Stack()))
				}
			}()
			res["printed"] = printParts(word.Parts, false)
		}()
		res["printed_struct"] = printParts(word.Parts, true)
	} else {
		res["printed"], res["printed_struct"] = "", ""
	}
	exp := []string{}
	if has {
		for w, err := range expand.BracesSeq(nil, word) {
			if err != nil {
				res["exp_err"] = err.Error()
				break
			}
			if len(w.Parts) == 0 {
				exp = append(exp, "")
			} else {
				exp = append(exp, printParts(w.Parts, true))
			}
		}
	} else {
		exp = append(exp, printParts(word.Parts, true))
	}
	if len(exp) > 400 {
		res["exp_len"] = len(exp)
		exp = exp[:400]
	}
	res["exp"] = exp

	// expand.Fields on a fresh parse
	word2, _ := parseWord(src)
	if word2 != nil {
		cfg := &expand.Config{Env: expand.FuncEnviron(func(name string) string {
			switch name {
			case "a":
				return "A"
			case "b":
				return "B"
			case "1":
				return "P"
			case "2":
				return "Q"
			}
			return ""
		})}
		fields, err := expand.Fields(cfg, word2)
		if err != nil {
			res["fields_err"] = err.Error()
		}
		if fields == nil {
			fields = []string{}
		}
		if len(fields) > 400 {
			res["fields_len"] = len(fields)
			fields = fields[:400]
		}
		res["fields"] = fields
	}
	return res, nil
}
