package main

import (
	"fmt"
	"reflect"
	"strings"

	"mvdan.cc/sh/v3/syntax"
)

// Dump is a deep structural dump of a syntax tree by reflection over exported fields,
// positions included. It is independent of syntax.Walk (C14) and typedjson (C15); it is
// used to report *where* two trees differ (the verdict itself is reflect.DeepEqual).
func Dump(x any) string {
	var sb strings.Builder
	dumpVal(&sb, reflect.ValueOf(x))
	return sb.String()
}

// DumpNoOffsets is Dump with positions printed as line:col only (byte offsets left out).
func DumpNoOffsets(x any) string {
	noOffsets = true
	defer func() { noOffsets = false }()
	return Dump(x)
}

var noOffsets bool

var posT = reflect.TypeFor[syntax.Pos]()

func posStr(p syntax.Pos) string {
	if noOffsets && p.IsValid() {
		return fmt.Sprintf("%d:%d", p.Line(), p.Col())
	}
	if p.IsRecovered() {
		return "R"
	}
	if !p.IsValid() {
		if p == (syntax.Pos{}) {
			return "-"
		}
		return fmt.Sprintf("!%d:%d:%d", p.Offset(), p.Line(), p.Col())
	}
	return fmt.Sprintf("%d:%d:%d", p.Offset(), p.Line(), p.Col())
}

func dumpVal(sb *strings.Builder, v reflect.Value) {
	switch v.Kind() {
	case reflect.Invalid:
		sb.WriteString("nil")
	case reflect.Interface, reflect.Pointer:
		if v.IsNil() {
			sb.WriteString("nil")
			return
		}
		dumpVal(sb, v.Elem())
	case reflect.Slice:
		if v.IsNil() {
			sb.WriteString("nil")
			return
		}
		sb.WriteString("[")
		for i := range v.Len() {
			if i > 0 {
				sb.WriteString(" ")
			}
			dumpVal(sb, v.Index(i))
		}
		sb.WriteString("]")
	case reflect.Struct:
		if v.Type() == posT {
			sb.WriteString(posStr(v.Interface().(syntax.Pos)))
			return
		}
		t := v.Type()
		sb.WriteString(t.Name())
		sb.WriteString("{")
		first := true
		for i := range t.NumField() {
			f := t.Field(i)
			if !f.IsExported() {
				continue
			}
			fv := v.Field(i)
			if fv.IsZero() {
				continue
			}
			if !first {
				sb.WriteString(" ")
			}
			first = false
			sb.WriteString(f.Name)
			sb.WriteString(":")
			dumpVal(sb, fv)
		}
		sb.WriteString("}")
	case reflect.String:
		fmt.Fprintf(sb, "%q", v.String())
	case reflect.Bool:
		fmt.Fprintf(sb, "%v", v.Bool())
	case reflect.Uint8, reflect.Uint32, reflect.Uint, reflect.Uint64, reflect.Uint16:
		if s, ok := v.Interface().(fmt.Stringer); ok {
			fmt.Fprintf(sb, "%d(%s)", v.Uint(), s.String())
		} else {
			fmt.Fprintf(sb, "%d", v.Uint())
		}
	case reflect.Int, reflect.Int64, reflect.Int32:
		fmt.Fprintf(sb, "%d", v.Int())
	default:
		fmt.Fprintf(sb, "?%s", v.Kind())
	}
}

// firstDiff returns a short window around the first differing byte of two dumps.
func firstDiff(a, b string) (string, string) {
	i := 0
	for i < len(a) && i < len(b) && a[i] == b[i] {
		i++
	}
	lo := max(0, i-60)
	return a[lo:min(len(a), i+80)], b[lo:min(len(b), i+80)]
}

var allLangs = []string{"bash", "posix", "mksh", "bats", "zsh"}
