package main

import (
	"encoding/json"
	"fmt"
	"math/rand"
	"reflect"
	"strings"
	"verif/harness/hlib"

	"mvdan.cc/sh/v3/syntax"
)

// C14: syntax.Walk / syntax.Preorder callback protocol.
//
// Engine "walktrace": vector {src (latin1), langs, seed, nprune, nstop, maxnodes}.
// For every variant in which src parses (KeepComments on; identical trees are done once):
//   * the tree SHAPE is taken by reflection over exported fields (independent of Walk):
//     every value that implements syntax.Node, through pointers, interfaces, slices and
//     nested non-node structs (ParamExp.Slice/Repl/Exp ...); comments included;
//   * the callback sequences of Walk (no pruning; pruning at sampled nodes) and of Preorder
//     (complete; stopped at sampled positions) are recorded as traces for ShWalkTrace;
//   * exhaustively, in Go, by comparison only: Preorder's sequence equals Walk's enter
//     sequence; Preorder stopped after k yields gives the first k and is not called again;
//     Walk pruned at p gives the unpruned sequence minus the events of p's strict
//     descendants (by shape) and p's f(nil)  (laws Complete / PreorderLaw of ShWalk).
func init() { hlib.Register("walktrace", walkTraceEngine) }

var nodeIface = reflect.TypeFor[syntax.Node]()

type shape struct {
	nodes  []syntax.Node // index id-1
	kids   [][]int
	kinds  []string
	byPtr  map[uintptr]int
	byComm map[string]int
	dups   []string
	path   []string // path of each node from the root (field names), for reports
	fld    []string // "<ParentKind>.<field path below the parent node>" without slice indices
}

func commKey(c *syntax.Comment) string {
	return fmt.Sprintf("%d:%d:%d:%s", c.Hash.Offset(), c.Hash.Line(), c.Hash.Col(), c.Text)
}

func (s *shape) add(n syntax.Node, ptr uintptr, parent int, path string) int {
	id := len(s.nodes) + 1
	s.nodes = append(s.nodes, n)
	s.kids = append(s.kids, []int{})
	s.kinds = append(s.kinds, strings.TrimPrefix(reflect.TypeOf(n).String(), "*syntax."))
	s.path = append(s.path, path)
	fld := "(root)"
	if parent > 0 {
		rel := strings.TrimPrefix(path, s.path[parent-1])
		var sb strings.Builder
		skip := false
		for _, r := range rel {
			if r == '[' {
				skip = true
			} else if r == ']' {
				skip = false
			} else if !skip {
				sb.WriteRune(r)
			}
		}
		fld = s.kinds[parent-1] + sb.String()
	}
	s.fld = append(s.fld, fld)
	if old, ok := s.byPtr[ptr]; ok {
		s.dups = append(s.dups, fmt.Sprintf("%s reachable twice: %s and %s", s.kinds[id-1], s.path[old-1], path))
	}
	s.byPtr[ptr] = id
	if c, ok := n.(*syntax.Comment); ok {
		s.byComm[commKey(c)] = id
	}
	if parent > 0 {
		s.kids[parent-1] = append(s.kids[parent-1], id)
	}
	return id
}

func (s *shape) collect(v reflect.Value, parent int, path string) {
	switch v.Kind() {
	case reflect.Interface:
		if !v.IsNil() {
			s.collect(v.Elem(), parent, path)
		}
	case reflect.Pointer:
		if v.IsNil() {
			return
		}
		if v.Elem().Kind() != reflect.Struct {
			return
		}
		if v.Type().Implements(nodeIface) {
			id := s.add(v.Interface().(syntax.Node), v.Pointer(), parent, path)
			s.fields(v.Elem(), id, path)
			return
		}
		s.fields(v.Elem(), parent, path) // pointer to a non-node struct: its nodes belong to the enclosing node
	case reflect.Struct:
		if v.Type() == posT {
			return
		}
		if v.CanAddr() && v.Addr().Type().Implements(nodeIface) {
			id := s.add(v.Addr().Interface().(syntax.Node), v.Addr().Pointer(), parent, path)
			s.fields(v, id, path)
			return
		}
		s.fields(v, parent, path)
	case reflect.Slice:
		for i := range v.Len() {
			s.collect(v.Index(i), parent, fmt.Sprintf("%s[%d]", path, i))
		}
	}
}

func (s *shape) fields(v reflect.Value, parent int, path string) {
	t := v.Type()
	for i := range t.NumField() {
		f := t.Field(i)
		if !f.IsExported() {
			continue
		}
		s.collect(v.Field(i), parent, path+"."+f.Name)
	}
}

func buildShape(root syntax.Node) *shape {
	s := &shape{byPtr: map[uintptr]int{}, byComm: map[string]int{}}
	s.collect(reflect.ValueOf(root), 0, strings.TrimPrefix(reflect.TypeOf(root).String(), "*syntax."))
	return s
}

// idOf maps a node handed to a callback back to the shape; 0 = not in the shape.
func (s *shape) idOf(n syntax.Node) int {
	v := reflect.ValueOf(n)
	if v.Kind() == reflect.Pointer {
		if id, ok := s.byPtr[v.Pointer()]; ok {
			return id
		}
	}
	if c, ok := n.(*syntax.Comment); ok {
		// Walk hands out pointers to copies of the comments of Stmt/CaseItem/ArrayElem
		if id, ok := s.byComm[commKey(c)]; ok {
			return id
		}
	}
	return 0
}

func (s *shape) strictDesc(p int) map[int]bool {
	out := map[int]bool{}
	var rec func(int)
	rec = func(n int) {
		for _, c := range s.kids[n-1] {
			out[c] = true
			rec(c)
		}
	}
	rec(p)
	return out
}

type wevent [3]int // {1, node, descend} or {0,0,0}

func recordWalk(s *shape, root syntax.Node, pruneAt int) (ev []wevent, pan string) {
	defer func() {
		if r := recover(); r != nil {
			pan = fmt.Sprint(r)
		}
	}()
	syntax.Walk(root, func(n syntax.Node) bool {
		if n == nil {
			ev = append(ev, wevent{0, 0, 0})
			return true
		}
		id := s.idOf(n)
		d := 1
		if id == pruneAt {
			d = 0
		}
		ev = append(ev, wevent{1, id, d})
		return d == 1
	})
	return ev, ""
}

func recordPreorder(s *shape, root syntax.Node, stopAfter int) (ids []int, pan string) {
	defer func() {
		if r := recover(); r != nil {
			pan = fmt.Sprint(r)
		}
	}()
	for n := range syntax.Preorder(root) {
		ids = append(ids, s.idOf(n))
		if stopAfter > 0 && len(ids) == stopAfter {
			break
		}
	}
	return ids, ""
}

type walkVec struct {
	Src      string   `json:"src"`
	Langs    []string `json:"langs"`
	Seed     int64    `json:"seed"`
	NPrune   int      `json:"nprune"`
	NStop    int      `json:"nstop"`
	MaxNodes int      `json:"maxnodes"` // trees larger than this: full walk/preorder traces only
	Only     *struct {
		Lang  string `json:"lang"`
		Kind  string `json:"kind"`
		Prune int    `json:"prune"`
		Stop  int    `json:"stop"`
	} `json:"only"`
}

type wtrace struct {
	Lang    string   `json:"lang"`
	Kind    string   `json:"kind"` // walk | pre
	Prune   int      `json:"prune"`
	Stop    int      `json:"stop"`
	Kids    [][]int  `json:"kids"`
	Knd     []string `json:"knd"`
	Fld     []string `json:"fld"`
	Ev      [][3]int `json:"ev"`
	Stopped bool     `json:"stopped"`
}

type wmismatch struct {
	Lang string `json:"lang"`
	What string `json:"what"`
	Node string `json:"node"` // kind + path of the node concerned
	Info string `json:"info"`
}

func walkTraceEngine(raw json.RawMessage, _ []string) (any, error) {
	var v walkVec
	if err := json.Unmarshal(raw, &v); err != nil {
		return nil, err
	}
	src := string(hlib.Unlatin1(v.Src))
	rng := rand.New(rand.NewSource(v.Seed))
	seenDump := map[string]bool{}
	var traces []wtrace
	mism := []wmismatch{}
	trees, nodes, goChecks, deduped := 0, 0, 0, 0
	kindsSeen := map[string]bool{}
	for _, lang := range v.Langs {
		if v.Only != nil && v.Only.Lang != lang {
			continue
		}
		p := syntax.NewParser(syntax.Variant(hlib.LangOf(lang)), syntax.KeepComments(true))
		f, err := p.Parse(strings.NewReader(src), "")
		if err != nil {
			continue
		}
		d := Dump(f)
		if seenDump[d] {
			deduped++
			continue
		}
		seenDump[d] = true
		s := buildShape(f)
		trees++
		nodes += len(s.nodes)
		for _, k := range s.kinds {
			kindsSeen[k] = true
		}
		for _, dup := range s.dups {
			mism = append(mism, wmismatch{Lang: lang, What: "shape: node reachable through two paths", Info: dup})
		}
		nodeName := func(id int) string {
			if id <= 0 || id > len(s.nodes) {
				return "?"
			}
			return s.kinds[id-1] + " at " + s.path[id-1]
		}
		mk := func(kind string, prune, stop int, ev []wevent, stopped bool) wtrace {
			t := wtrace{Lang: lang, Kind: kind, Prune: prune, Stop: stop, Kids: s.kids, Knd: s.kinds, Fld: s.fld, Stopped: stopped, Ev: make([][3]int, len(ev))}
			for i, e := range ev {
				t.Ev[i] = e
			}
			return t
		}
		want := func(kind string, prune, stop int) bool {
			if v.Only == nil {
				return true
			}
			return v.Only.Kind == kind && v.Only.Prune == prune && v.Only.Stop == stop
		}
		// ---- complete walk
		full, pan := recordWalk(s, f, 0)
		if pan != "" {
			mism = append(mism, wmismatch{Lang: lang, What: "panic in Walk", Info: pan})
			continue
		}
		if want("walk", 0, 0) {
			traces = append(traces, mk("walk", 0, 0, full, false))
		}
		var enters []int
		for _, e := range full {
			if e[0] == 1 {
				enters = append(enters, e[1])
			}
		}
		// label each f(nil) with the node it closes (by the trace's own nesting)
		closes := make([]int, len(full))
		var st []int
		for i, e := range full {
			if e[0] == 1 {
				st = append(st, e[1])
			} else if len(st) > 0 {
				closes[i] = st[len(st)-1]
				st = st[:len(st)-1]
			}
		}
		// ---- complete Preorder == Walk's enters
		pre, pan := recordPreorder(s, f, 0)
		goChecks++
		if pan != "" {
			mism = append(mism, wmismatch{Lang: lang, What: "panic in Preorder", Info: pan})
		} else if fmt.Sprint(pre) != fmt.Sprint(enters) {
			mism = append(mism, wmismatch{Lang: lang, What: "Preorder sequence differs from Walk's enter sequence", Info: fmt.Sprintf("walk=%v preorder=%v", enters, pre)})
		}
		if want("pre", 0, 0) {
			pev := make([]wevent, len(pre))
			for i, id := range pre {
				pev[i] = wevent{1, id, 1}
			}
			traces = append(traces, mk("pre", 0, 0, pev, false))
		}
		small := v.MaxNodes == 0 || len(s.nodes) <= v.MaxNodes
		// ---- Preorder stopped after k yields, every k
		stopSample := map[int]bool{}
		for i := 0; i < v.NStop && len(pre) > 0; i++ {
			stopSample[1+rng.Intn(len(pre))] = true
		}
		if v.Only != nil && v.Only.Kind == "pre" && v.Only.Stop > 0 {
			stopSample = map[int]bool{v.Only.Stop: true}
		}
		for k := 1; k <= len(pre) && (small || stopSample[k]); k++ {
			got, pan := recordPreorder(s, f, k)
			goChecks++
			if pan != "" {
				mism = append(mism, wmismatch{Lang: lang, What: "panic in Preorder stopped early", Info: fmt.Sprintf("stop after %d: %s", k, pan)})
				continue
			}
			if fmt.Sprint(got) != fmt.Sprint(pre[:k]) {
				mism = append(mism, wmismatch{Lang: lang, What: "Preorder stopped early is not a prefix", Info: fmt.Sprintf("stop after %d: got %v want %v", k, got, pre[:k])})
			}
			if stopSample[k] && want("pre", 0, k) {
				pev := make([]wevent, len(got))
				for i, id := range got {
					pev[i] = wevent{1, id, 1}
				}
				traces = append(traces, mk("pre", 0, k, pev, true))
			}
		}
		// ---- Walk pruned at p, every p
		pruneSample := map[int]bool{}
		for i := 0; i < v.NPrune; i++ {
			pruneSample[1+rng.Intn(len(s.nodes))] = true
		}
		if v.Only != nil && v.Only.Kind == "walk" && v.Only.Prune > 0 {
			pruneSample = map[int]bool{v.Only.Prune: true}
		}
		for pnode := 1; pnode <= len(s.nodes) && (small || pruneSample[pnode]); pnode++ {
			got, pan := recordWalk(s, f, pnode)
			goChecks++
			if pan != "" {
				mism = append(mism, wmismatch{Lang: lang, What: "panic in Walk with pruning", Node: nodeName(pnode), Info: pan})
				continue
			}
			below := s.strictDesc(pnode)
			var exp []wevent
			for i, e := range full {
				switch {
				case e[0] == 1 && below[e[1]]:
				case e[0] == 0 && (below[closes[i]] || closes[i] == pnode):
				case e[0] == 1 && e[1] == pnode:
					exp = append(exp, wevent{1, pnode, 0})
				default:
					exp = append(exp, e)
				}
			}
			if fmt.Sprint(got) != fmt.Sprint(exp) {
				mism = append(mism, wmismatch{Lang: lang, What: "Walk pruned at a node is not the full walk minus that subtree", Node: nodeName(pnode),
					Info: fmt.Sprintf("got %v want %v", got, exp)})
			}
			if pruneSample[pnode] && want("walk", pnode, 0) {
				traces = append(traces, mk("walk", pnode, 0, got, false))
			}
		}
	}
	ks := []string{}
	for k := range kindsSeen {
		ks = append(ks, k)
	}
	if traces == nil {
		traces = []wtrace{}
	}
	return map[string]any{"traces": traces, "mismatches": mism, "trees": trees, "nodes": nodes,
		"go_checks": goChecks, "deduped": deduped, "kinds": ks}, nil
}
