package main

import (
	"bytes"
	"encoding/json"
	"fmt"
	"math/rand"
	"reflect"
	"sort"
	"strings"
	"verif/harness/hlib"

	"mvdan.cc/sh/v3/syntax"
	"mvdan.cc/sh/v3/syntax/typedjson"
)

// C15: typedjson round trip and Decode robustness.
//
// Engines:
//   tjvec    vectors emitted by TLC from ShTypedJson: abstract trees with their specified
//            encoding (kind "tree") and mutated documents with the specified verdict ("mut")
//   tjreal   real parsed trees (corpus): round trip of the root and of every sub-node,
//            byte-identical re-encoding, and the spec's mutation descriptors applied to the
//            real encodings (Decode must return, never panic)
func init() {
	hlib.Register("tjvec", tjVecEngine)
	hlib.Register("tjreal", tjRealEngine)
}

// ---------------------------------------------------------------- ordered JSON (the spec's tagged values)

// ojson is an order-preserving JSON value: used both for the spec's documents and for real
// encodings (so that "the k-th value in document order" means the same thing in both).
type ojson struct {
	kind string // obj arr str num bool null raw
	keys []string
	vals []*ojson
	str  string
	raw  string // number text, or a raw fragment for nesting bombs
	b    bool
}

func fromTagged(x any) (*ojson, error) {
	m, ok := x.(map[string]any)
	if !ok {
		return nil, fmt.Errorf("tagged JSON value expected, got %T", x)
	}
	switch m["t"] {
	case "obj":
		o := &ojson{kind: "obj"}
		kv, _ := m["kv"].([]any)
		for _, p := range kv {
			pp := p.([]any)
			v, err := fromTagged(pp[1])
			if err != nil {
				return nil, err
			}
			o.keys = append(o.keys, pp[0].(string))
			o.vals = append(o.vals, v)
		}
		return o, nil
	case "arr":
		o := &ojson{kind: "arr"}
		a, _ := m["a"].([]any)
		for _, e := range a {
			v, err := fromTagged(e)
			if err != nil {
				return nil, err
			}
			o.vals = append(o.vals, v)
		}
		return o, nil
	case "str":
		s, _ := m["s"].(string)
		return &ojson{kind: "str", str: s}, nil
	case "bool":
		b, _ := m["b"].(bool)
		return &ojson{kind: "bool", b: b}, nil
	case "null":
		return &ojson{kind: "null"}, nil
	case "num":
		switch m["q"] {
		case "int":
			return &ojson{kind: "num", raw: fmt.Sprintf("%d", int64(m["n"].(float64)))}, nil
		case "neg":
			return &ojson{kind: "num", raw: "-1"}, nil
		case "frac":
			return &ojson{kind: "num", raw: "1.5"}, nil
		case "big":
			return &ojson{kind: "num", raw: "4294967296"}, nil
		case "huge":
			return &ojson{kind: "num", raw: "1e400"}, nil
		}
	}
	return nil, fmt.Errorf("bad tagged JSON value %v", m)
}

func parseOrdered(data []byte) (*ojson, error) {
	dec := json.NewDecoder(bytes.NewReader(data))
	dec.UseNumber()
	v, err := parseOrderedValue(dec)
	return v, err
}

func parseOrderedValue(dec *json.Decoder) (*ojson, error) {
	tok, err := dec.Token()
	if err != nil {
		return nil, err
	}
	switch t := tok.(type) {
	case json.Delim:
		if t == '{' {
			o := &ojson{kind: "obj"}
			for dec.More() {
				k, err := dec.Token()
				if err != nil {
					return nil, err
				}
				v, err := parseOrderedValue(dec)
				if err != nil {
					return nil, err
				}
				o.keys = append(o.keys, k.(string))
				o.vals = append(o.vals, v)
			}
			_, err := dec.Token()
			return o, err
		}
		o := &ojson{kind: "arr"}
		for dec.More() {
			v, err := parseOrderedValue(dec)
			if err != nil {
				return nil, err
			}
			o.vals = append(o.vals, v)
		}
		_, err := dec.Token()
		return o, err
	case string:
		return &ojson{kind: "str", str: t}, nil
	case json.Number:
		return &ojson{kind: "num", raw: t.String()}, nil
	case bool:
		return &ojson{kind: "bool", b: t}, nil
	case nil:
		return &ojson{kind: "null"}, nil
	}
	return nil, fmt.Errorf("unexpected token %v", tok)
}

func (o *ojson) render(sb *strings.Builder) {
	switch o.kind {
	case "obj":
		sb.WriteByte('{')
		for i, k := range o.keys {
			if i > 0 {
				sb.WriteByte(',')
			}
			kb, _ := json.Marshal(k)
			sb.Write(kb)
			sb.WriteByte(':')
			o.vals[i].render(sb)
		}
		sb.WriteByte('}')
	case "arr":
		sb.WriteByte('[')
		for i, v := range o.vals {
			if i > 0 {
				sb.WriteByte(',')
			}
			v.render(sb)
		}
		sb.WriteByte(']')
	case "str":
		b, _ := json.Marshal(o.str)
		sb.Write(b)
	case "num", "raw":
		sb.WriteString(o.raw)
	case "bool":
		if o.b {
			sb.WriteString("true")
		} else {
			sb.WriteString("false")
		}
	default:
		sb.WriteString("null")
	}
}

func (o *ojson) String() string {
	var sb strings.Builder
	o.render(&sb)
	return sb.String()
}

func (o *ojson) clone() *ojson {
	c := *o
	c.keys = append([]string(nil), o.keys...)
	c.vals = make([]*ojson, len(o.vals))
	for i, v := range o.vals {
		c.vals[i] = v.clone()
	}
	return &c
}

// slots lists, in document order (the order of ShTypedJson!Paths), every value position:
// (parent, index).
type slot struct {
	parent *ojson
	idx    int
}

func (o *ojson) slots(out *[]slot) {
	if o.kind != "obj" && o.kind != "arr" {
		return
	}
	for i, v := range o.vals {
		*out = append(*out, slot{o, i})
		v.slots(out)
	}
}

// generic (order-insensitive) form without the derived "Pos"/"End" keys, for comparisons
func (o *ojson) generic(dropDerived bool) any {
	switch o.kind {
	case "obj":
		m := map[string]any{}
		for i, k := range o.keys {
			if dropDerived && (k == "Pos" || k == "End") {
				continue
			}
			m[k] = o.vals[i].generic(dropDerived)
		}
		return m
	case "arr":
		a := make([]any, len(o.vals))
		for i, v := range o.vals {
			a[i] = v.generic(dropDerived)
		}
		return a
	case "str":
		return o.str
	case "num", "raw":
		return "#" + o.raw
	case "bool":
		return o.b
	}
	return nil
}

// ---------------------------------------------------------------- guarded calls

func safeDecode(data []byte) (n syntax.Node, err error, pan string) {
	defer func() {
		if r := recover(); r != nil {
			pan = fmt.Sprint(r)
		}
	}()
	n, err = typedjson.Decode(bytes.NewReader(data))
	return
}

func safeEncode(n syntax.Node) (out []byte, err error, pan string) {
	defer func() {
		if r := recover(); r != nil {
			pan = fmt.Sprint(r)
		}
	}()
	var buf bytes.Buffer
	err = typedjson.Encode(&buf, n)
	return buf.Bytes(), err, ""
}

// ---------------------------------------------------------------- projection of a real tree to the spec's shape

func absNode(v reflect.Value) any {
	for v.Kind() == reflect.Interface || v.Kind() == reflect.Pointer {
		if v.IsNil() {
			return map[string]any{"k": "Nil", "v": map[string]any{}}
		}
		v = v.Elem()
	}
	t := v.Type()
	fields := map[string]any{}
	for i := range t.NumField() {
		f := t.Field(i)
		if !f.IsExported() {
			continue
		}
		fv := v.Field(i)
		if fv.Type() == posT {
			p := fv.Interface().(syntax.Pos)
			if p.IsRecovered() {
				fields[f.Name] = map[string]any{"p": "r"}
			} else if p != (syntax.Pos{}) {
				fields[f.Name] = map[string]any{"p": "v", "n": float64(p.Offset())}
			}
			continue
		}
		switch fv.Kind() {
		case reflect.String:
			if fv.String() != "" {
				fields[f.Name] = fv.String()
			}
		case reflect.Bool:
			if fv.Bool() {
				fields[f.Name] = true
			}
		case reflect.Uint8, reflect.Uint32, reflect.Uint:
			if fv.Uint() != 0 {
				if s, ok := fv.Interface().(fmt.Stringer); ok {
					fields[f.Name] = s.String()
				} else {
					fields[f.Name] = float64(fv.Uint())
				}
			}
		case reflect.Pointer, reflect.Interface:
			if !fv.IsNil() {
				fields[f.Name] = absNode(fv)
			}
		case reflect.Slice:
			if fv.Len() > 0 {
				a := make([]any, fv.Len())
				for j := range fv.Len() {
					a[j] = absNode(fv.Index(j))
				}
				fields[f.Name] = a
			}
		}
	}
	return map[string]any{"k": t.Name(), "v": fields}
}

// the spec prints an empty function as [] : normalise to {}
func normSpecTree(x any) any {
	switch x := x.(type) {
	case map[string]any:
		out := map[string]any{}
		for k, v := range x {
			out[k] = normSpecTree(v)
		}
		if _, isNode := out["k"]; isNode {
			if a, ok := out["v"].([]any); ok && len(a) == 0 {
				out["v"] = map[string]any{}
			}
		}
		return out
	case []any:
		out := make([]any, len(x))
		for i, v := range x {
			out[i] = normSpecTree(v)
		}
		return out
	}
	return x
}

// ---------------------------------------------------------------- engine: tjvec

type tjVec struct {
	Kind  string `json:"kind"`
	Doc   any    `json:"doc"`
	Strip any    `json:"strip"`
	OK    bool   `json:"ok"`
}

func tjVecEngine(raw json.RawMessage, _ []string) (any, error) {
	var v tjVec
	if err := json.Unmarshal(raw, &v); err != nil {
		return nil, err
	}
	doc, err := fromTagged(v.Doc)
	if err != nil {
		return nil, err
	}
	text := doc.String()
	res := map[string]any{"text": text}
	n, derr, pan := safeDecode([]byte(text))
	if pan != "" {
		res["decode_panic"] = pan
		return res, nil
	}
	res["ok"] = derr == nil
	if derr != nil {
		res["err"] = derr.Error()
		return res, nil
	}
	// the decoded tree, projected to the spec's shape
	abs := absNode(reflect.ValueOf(n))
	if v.Kind == "tree" {
		want := normSpecTree(v.Strip)
		if !reflect.DeepEqual(abs, want) {
			a, _ := json.Marshal(abs)
			w, _ := json.Marshal(want)
			res["tree_differs"] = map[string]any{"got": string(a), "want": string(w)}
		}
	}
	out, eerr, epan := safeEncode(n)
	if epan != "" {
		res["encode_panic"] = epan // not part of the property for hand-made trees; reported as a note
		return res, nil
	}
	if eerr != nil {
		res["encode_err"] = eerr.Error()
		return res, nil
	}
	if v.Kind == "tree" {
		re, err := parseOrdered(out)
		if err != nil {
			res["reencode_unparsable"] = err.Error()
		} else if !reflect.DeepEqual(re.generic(true), doc.generic(true)) {
			res["reencode_differs"] = map[string]any{"got": string(out), "want": text}
		}
	}
	return res, nil
}

// ---------------------------------------------------------------- equality modulo recovered positions

// sameModuloRecovered: b (decoded) equals a (original) in every field, except that
// positions that are recovered in a must be unset in b. Returns "" or the path of the first difference.
func sameModuloRecovered(a, b reflect.Value, path string) string {
	if a.Type() != b.Type() {
		return path + ": type " + a.Type().String() + " vs " + b.Type().String()
	}
	switch a.Kind() {
	case reflect.Interface, reflect.Pointer:
		if a.IsNil() || b.IsNil() {
			if a.IsNil() != b.IsNil() {
				return path + ": nil-ness differs"
			}
			return ""
		}
		return sameModuloRecovered(a.Elem(), b.Elem(), path)
	case reflect.Struct:
		if a.Type() == posT {
			pa, pb := a.Interface().(syntax.Pos), b.Interface().(syntax.Pos)
			if pa.IsRecovered() {
				if pb != (syntax.Pos{}) {
					return path + ": recovered position did not become unset"
				}
				return ""
			}
			if pa != pb {
				return fmt.Sprintf("%s: position %s vs %s", path, posStr(pa), posStr(pb))
			}
			return ""
		}
		for i := range a.NumField() {
			if !a.Type().Field(i).IsExported() {
				continue
			}
			if d := sameModuloRecovered(a.Field(i), b.Field(i), path+"."+a.Type().Field(i).Name); d != "" {
				return d
			}
		}
		return ""
	case reflect.Slice:
		if a.Len() != b.Len() {
			return fmt.Sprintf("%s: len %d vs %d", path, a.Len(), b.Len())
		}
		if a.IsNil() != b.IsNil() {
			// An empty non-nil slice (the parser leaves some []Comment fields that way) comes
			// back as nil: JSON has no way to tell them apart and they have the same elements.
			// Counted, not reported (see design_notes/C15.md, corrections).
			nilVsEmpty++
		}
		for i := range a.Len() {
			if d := sameModuloRecovered(a.Index(i), b.Index(i), fmt.Sprintf("%s[%d]", path, i)); d != "" {
				return d
			}
		}
		return ""
	default:
		if !reflect.DeepEqual(a.Interface(), b.Interface()) {
			return fmt.Sprintf("%s: %v vs %v", path, a.Interface(), b.Interface())
		}
		return ""
	}
}

var nilVsEmpty int

func hasRecovered(v reflect.Value) bool {
	switch v.Kind() {
	case reflect.Interface, reflect.Pointer:
		return !v.IsNil() && hasRecovered(v.Elem())
	case reflect.Struct:
		if v.Type() == posT {
			return v.Interface().(syntax.Pos).IsRecovered()
		}
		for i := range v.NumField() {
			if v.Type().Field(i).IsExported() && hasRecovered(v.Field(i)) {
				return true
			}
		}
	case reflect.Slice:
		for i := range v.Len() {
			if hasRecovered(v.Index(i)) {
				return true
			}
		}
	}
	return false
}

// ---------------------------------------------------------------- engine: tjreal

type mutDesc struct {
	Op  string `json:"op"`
	K   int    `json:"k"`
	Arg string `json:"arg"`
}

type tjRealVec struct {
	Src      string    `json:"src"`
	Langs    []string  `json:"langs"`
	Seed     int64     `json:"seed"`
	Muts     []mutDesc `json:"muts"`
	Retypes  map[string]any `json:"retypes"` // the spec's Retypes table (tagged values)
	MaxSub   int       `json:"maxsub"`     // sub-nodes tried as roots per tree
	Bombs    []bombDesc `json:"bombs"`
}

type tjIssue struct {
	Lang string `json:"lang"`
	What string `json:"what"`
	Kind string `json:"kind"` // node kind concerned
	Info string `json:"info"`
	Doc  string `json:"doc,omitempty"`
	Rec  int    `json:"rec"`
}

func roundTrip(n syntax.Node) (what, info string) {
	enc1, err, pan := safeEncode(n)
	if pan != "" {
		return "Encode panicked on a parsed tree", pan
	}
	if err != nil {
		return "Encode failed on a parsed tree", err.Error()
	}
	d, derr, dpan := safeDecode(enc1)
	if dpan != "" {
		return "Decode panicked on an encoding", dpan
	}
	if derr != nil {
		return "Decode rejected an encoding", derr.Error()
	}
	if diff := sameModuloRecovered(reflect.ValueOf(n), reflect.ValueOf(d), reflect.TypeOf(n).Elem().Name()); diff != "" {
		return "decoded tree differs from the original", diff
	}
	enc2, err, pan := safeEncode(d)
	if pan != "" || err != nil {
		return "re-encoding the decoded tree failed", pan + fmt.Sprint(err)
	}
	if !bytes.Equal(enc1, enc2) {
		a, b := firstDiff(string(enc1), string(enc2))
		// Named deviation: the tree has recovered positions (they come back unset, as the property
		// says) and the two encodings differ only in the derived "Pos"/"End" keys, which are computed
		// from those positions by the nodes' Pos()/End() methods.
		if hasRecovered(reflect.ValueOf(n)) {
			o1, e1 := parseOrdered(enc1)
			o2, e2 := parseOrdered(enc2)
			if e1 == nil && e2 == nil && reflect.DeepEqual(o1.generic(true), o2.generic(true)) {
				return "Dev_RecoveredPositionsChangeDerivedPosEnd", a + "  VS  " + b
			}
		}
		return "re-encoded JSON is not byte-identical", a + "  VS  " + b
	}
	return "", ""
}

func applyMut(doc *ojson, m mutDesc, at int, retypes map[string]*ojson) *ojson {
	c := doc.clone()
	if m.Op == "settype" && (m.K == 0 || at == 0) {
		setType(c, m.Arg)
		return c
	}
	var sl []slot
	c.slots(&sl)
	if len(sl) == 0 {
		return nil
	}
	s := sl[(at-1)%len(sl)]
	switch m.Op {
	case "del":
		s.parent.vals = append(s.parent.vals[:s.idx:s.idx], s.parent.vals[s.idx+1:]...)
		if s.parent.kind == "obj" {
			s.parent.keys = append(s.parent.keys[:s.idx:s.idx], s.parent.keys[s.idx+1:]...)
		}
	case "retype":
		r, ok := retypes[m.Arg]
		if !ok {
			return nil
		}
		s.parent.vals[s.idx] = r.clone()
	case "settype":
		t := s.parent.vals[s.idx]
		if t.kind != "obj" {
			return nil
		}
		setType(t, m.Arg)
	default:
		return nil
	}
	return c
}

func setType(o *ojson, name string) {
	var keys []string
	var vals []*ojson
	if name != "" {
		keys = append(keys, "Type")
		vals = append(vals, &ojson{kind: "str", str: name})
	}
	for i, k := range o.keys {
		if k != "Type" {
			keys = append(keys, k)
			vals = append(vals, o.vals[i])
		}
	}
	o.keys, o.vals = keys, vals
}

func tjRealEngine(raw json.RawMessage, _ []string) (any, error) {
	var v tjRealVec
	if err := json.Unmarshal(raw, &v); err != nil {
		return nil, err
	}
	retypes := map[string]*ojson{}
	for k, t := range v.Retypes {
		o, err := fromTagged(t)
		if err != nil {
			return nil, err
		}
		retypes[k] = o
	}
	src := string(hlib.Unlatin1(v.Src))
	rng := rand.New(rand.NewSource(v.Seed))
	issues := []tjIssue{}
	nilVsEmpty = 0
	seen := map[string]bool{}
	trees, roots, mutRuns, mutOK, recTrees := 0, 0, 0, 0, 0
	kinds := map[string]bool{}
	for _, lang := range v.Langs {
		for _, rec := range []int{0, 5} {
			opts := []syntax.ParserOption{syntax.Variant(hlib.LangOf(lang)), syntax.KeepComments(true)}
			if rec > 0 {
				opts = append(opts, syntax.RecoverErrors(rec))
			}
			f, err := syntax.NewParser(opts...).Parse(strings.NewReader(src), "")
			if err != nil || f == nil {
				continue
			}
			d := Dump(f)
			if seen[d] {
				continue
			}
			seen[d] = true
			trees++
			if hasRecovered(reflect.ValueOf(f)) {
				recTrees++
			}
			add := func(what, kind, info, doc string) {
				if len(issues) < 20 {
					issues = append(issues, tjIssue{Lang: lang, What: what, Kind: kind, Info: info, Doc: doc, Rec: rec})
				}
			}
			// (1)(2) the root
			roots++
			if what, info := roundTrip(f); what != "" {
				add(what, "File", info, "")
			}
			// (3) sub-nodes as roots
			sh := buildShape(f)
			for _, k := range sh.kinds {
				kinds[k] = true
			}
			ids := rng.Perm(len(sh.nodes))
			if v.MaxSub > 0 && len(ids) > v.MaxSub {
				ids = ids[:v.MaxSub]
			}
			for _, i := range ids {
				if i == 0 {
					continue
				}
				roots++
				if what, info := roundTrip(sh.nodes[i]); what != "" {
					add(what+" (sub-node as root)", sh.kinds[i], sh.path[i]+": "+info, "")
				}
			}
			// (4) mutations of the real encoding
			enc, eerr, epan := safeEncode(f)
			if eerr != nil || epan != "" {
				continue
			}
			doc, perr := parseOrdered(enc)
			if perr != nil {
				add("encoding is not valid JSON", "File", perr.Error(), "")
				continue
			}
			var sl []slot
			doc.slots(&sl)
			for _, m := range v.Muts {
				ats := []int{m.K}
				if len(sl) > 0 {
					ats = append(ats, len(sl)+1-((m.K-1)%len(sl)+1), 1+rng.Intn(len(sl)), 1+rng.Intn(len(sl)))
				}
				if m.K == 0 {
					ats = []int{0}
				}
				for _, at := range ats {
					md := applyMut(doc, m, at, retypes)
					if md == nil {
						continue
					}
					text := md.String()
					_, derr, pan := safeDecode([]byte(text))
					mutRuns++
					if pan != "" {
						if len(text) > 3000 {
							text = text[:3000]
						}
						add("Decode panicked on a mutated document", m.Op+"/"+m.Arg, pan, text)
					} else if derr == nil {
						mutOK++
					}
				}
			}
			if rec == 0 {
				for _, b := range v.Bombs {
					_, _, pan := safeDecode([]byte(b.text()))
					mutRuns++
					if pan != "" {
						add("Decode panicked on a deeply nested document", fmt.Sprintf("%s-%d", b.Name, b.Depth), pan, "")
					}
				}
			}
		}
	}
	ks := []string{}
	for k := range kinds {
		ks = append(ks, k)
	}
	sort.Strings(ks)
	return map[string]any{"issues": issues, "trees": trees, "roots": roots, "mut_runs": mutRuns, "mut_ok": mutOK,
		"recovered_trees": recTrees, "kinds": ks, "nil_vs_empty": nilVsEmpty}, nil
}

// nesting bombs: documents described by ShTypedJson!NestDocs (head pre^depth mid post^depth tail)
type bombDesc struct {
	Name  string `json:"name"`
	Head  string `json:"head"`
	Pre   string `json:"pre"`
	Mid   string `json:"mid"`
	Post  string `json:"post"`
	Tail  string `json:"tail"`
	Depth int    `json:"depth"`
}

func (b bombDesc) text() string {
	return b.Head + strings.Repeat(b.Pre, b.Depth) + b.Mid + strings.Repeat(b.Post, b.Depth) + b.Tail
}
