package main

import (
	"bytes"
	"encoding/json"
	"fmt"
	"io"
	"math/rand"
	"os"
	"reflect"
	"regexp"
	"sort"
	"strings"
	"verif/harness/hlib"

	"mvdan.cc/sh/v3/syntax"
)

// C07: parse results must not depend on how the io.Reader chunks the input.
//
// Engines:
//   chunkvec  <templates.json>   one vector per (mode, class string) with all schedules TLC
//                                emitted for it; instantiated through the spec's template table
//   chunksrc                     one vector per concrete source (corpus): generic schedules
//   chunkone                     replay of a single (source, options, schedule)
//
// The harness only concatenates, runs and compares: reference = the same Parser options on
// bytes.NewReader(src) (all bytes offered at once).

func init() {
	hlib.Register("chunkvec", chunkVecEngine)
	hlib.Register("chunksrc", chunkSrcEngine)
	hlib.Register("chunkone", chunkOneEngine)
}

// ---------------------------------------------------------------- the scheduled reader

// sched: sizes of successive Read results (0 = a (0, nil) read); when the sizes are used up
// the rest of the data is delivered in one more read. eofWithData: the read that delivers
// the last byte also returns io.EOF; otherwise a separate (0, io.EOF) follows.
type sched struct {
	Name        string `json:"name"`
	Chunks      []int  `json:"chunks"`
	EOFWithData bool   `json:"eof_with_data"`
}

var corruptReader = os.Getenv("VERIF_C07_CORRUPT") == "1"

type schedReader struct {
	data   []byte
	chunks []int
	i      int
	eofwd  bool
	reads  int
}

func (r *schedReader) Read(p []byte) (int, error) {
	r.reads++
	if len(r.data) == 0 {
		// zero-length reads scheduled after the last byte are still honoured
		for r.i < len(r.chunks) {
			n := r.chunks[r.i]
			r.i++
			if n == 0 {
				return 0, nil
			}
		}
		return 0, io.EOF
	}
	n := len(r.data)
	if r.i < len(r.chunks) {
		n = r.chunks[r.i]
		if n == 0 {
			r.i++
			return 0, nil
		}
		if n > len(r.data) {
			n = len(r.data)
		}
	}
	if n > len(p) {
		// the lexer's buffer is smaller than the chunk: deliver what fits, keep the rest
		if r.i < len(r.chunks) {
			r.chunks[r.i] -= len(p)
		}
		n = len(p)
	} else if r.i < len(r.chunks) {
		r.i++
	}
	copy(p, r.data[:n])
	if corruptReader && r.reads == 2 && n > 0 {
		p[0] ^= 0x01 // self-test of the binding only (VERIF_C07_CORRUPT=1): a reader that damages a byte
	}
	r.data = r.data[n:]
	if len(r.data) == 0 && r.eofwd {
		return n, io.EOF
	}
	return n, nil
}

// ---------------------------------------------------------------- parse + compare

type popts struct {
	Lang   string `json:"lang"`
	KC     bool   `json:"kc"`
	StopAt string `json:"stopat"`
}

type presult struct {
	file *syntax.File
	err  string
	pan  string
}

func parseWith(src []byte, o popts, rd io.Reader) (res presult) {
	defer func() {
		if r := recover(); r != nil {
			res.pan = fmt.Sprint(r)
		}
	}()
	opts := []syntax.ParserOption{syntax.Variant(hlib.LangOf(o.Lang)), syntax.KeepComments(o.KC)}
	if o.StopAt != "" {
		opts = append(opts, syntax.StopAt(o.StopAt))
	}
	p := syntax.NewParser(opts...)
	f, err := p.Parse(rd, "")
	res.file = f
	if err != nil {
		res.err = err.Error()
	}
	return res
}

func sameResult(a, b presult) bool {
	if a.pan != b.pan || a.err != b.err {
		return false
	}
	if a.err != "" || a.pan != "" {
		return true // "the same error"
	}
	return reflect.DeepEqual(a.file, b.file)
}

func describe(r presult) map[string]any {
	m := map[string]any{}
	if r.pan != "" {
		m["panic"] = r.pan
	}
	if r.err != "" {
		m["err"] = r.err
	}
	if r.file != nil && r.err == "" {
		d := Dump(r.file)
		if len(d) > 1500 {
			d = d[:1500] + "..."
		}
		m["tree"] = d
	}
	return m
}

type mismatch struct {
	Src   string         `json:"src"` // latin1
	Opts  popts          `json:"opts"`
	Sched sched          `json:"sched"`
	Ref   map[string]any `json:"ref"`
	Got   map[string]any `json:"got"`
	DiffA string         `json:"diff_ref,omitempty"`
	DiffB string         `json:"diff_got,omitempty"`
	Devs  []string       `json:"devs"` // named known deviations this mismatch is attributed to
	Tag   string         `json:"tag"`  // where the program came from (template / corpus)
}

type c07stats struct {
	Evals      int            `json:"evals"`
	Programs   int            `json:"programs"`
	Mismatches []mismatch     `json:"mismatches"`
	MisCount   int            `json:"mis_count"`
	ByDev      map[string]int `json:"by_dev"`
	Nontrivial int            `json:"nontrivial"` // runs whose reader was called more than twice
	Sample     map[string]any `json:"sample,omitempty"`
}

func newStats() *c07stats { return &c07stats{ByDev: map[string]int{}, Mismatches: []mismatch{}} }

// ---------------------------------------------------------------- known-deviation attribution
//
// A mismatch between the parse under schedule s and the reference parse (bytes.Reader, whose
// own reads are recorded: for inputs over 1 KiB it has chunk boundaries too) is attributed to
// named deviations only if
//   (1) a chunk boundary of s or of the reference lies inside a deviation's trigger interval
//       (or s delivered the last bytes together with io.EOF), and
//   (2) after moving exactly those boundaries to the interval's safe position (and delivering
//       EOF separately) the two parses agree.
// Anything else is reported under its own key. The trigger intervals are byte patterns; they
// only decide under which key a difference is filed, never whether there is a difference.

var (
	reZshRange = regexp.MustCompile(`<[0-9]*-[0-9]*>`)
	reZshPfx   = regexp.MustCompile(`\$\{?(\([^)]*\))?[=~^]+`)
	reBsRun    = regexp.MustCompile(`[\\\x00]+`)
)

type interval struct {
	lo, hi int // boundaries b (split between byte b-1 and b) with lo <= b <= hi are "hot"
	safe   int // where such a boundary is moved to
	dev    string
}

func hotIntervals(src []byte, o popts) []interval {
	var out []interval
	if o.Lang == "zsh" {
		for _, m := range reZshRange.FindAllIndex(src, -1) {
			// '<' at m[0], '>' at m[1]-1: the closing '>' must be in the window when '<' is lexed
			out = append(out, interval{m[0] + 2, m[1] - 1, m[0], "Dev_ZshNumRangeSingleRefill"})
		}
		for _, m := range reZshPfx.FindAllIndex(src, -1) {
			// the two bytes after each prefix rune must be visible after a single refill
			out = append(out, interval{m[0] + 2, m[1] + 2, m[0], "Dev_ZshParamPrefixPeekTwoSingleRefill"})
		}
	}
	if o.StopAt != "" {
		w := len(o.StopAt)
		for i := 0; i+w <= len(src); i++ {
			if string(src[i:i+w]) == o.StopAt && w > 1 {
				out = append(out, interval{i + 1, i + w - 1, i, "Dev_StopAtWordSplitAcrossReads"})
			}
		}
	}
	if bytes.IndexByte(src, '`') >= 0 {
		// inside backquotes the byte after a backslash is inspected only if it is already buffered
		for _, m := range reBsRun.FindAllIndex(src, -1) {
			if bytes.IndexByte(src[m[0]:m[1]], '\\') >= 0 {
				out = append(out, interval{m[0] + 1, m[1], m[0], "Dev_BackquoteEscapeNotRefilled"})
			}
		}
	}
	return out
}

func boundaries(n int, chunks []int) []int {
	var bs []int
	pos := 0
	for _, c := range chunks {
		if c == 0 {
			continue
		}
		pos += c
		if pos >= n {
			break
		}
		bs = append(bs, pos)
	}
	return bs
}

// repair moves every boundary inside a trigger interval to that interval's safe position.
func repair(n int, bs []int, ivs []interval, hit map[string]bool) (chunks []int, changed bool) {
	set := map[int]bool{}
	for _, b := range bs {
		nb := b
		for _, iv := range ivs {
			if b >= iv.lo && b <= iv.hi {
				hit[iv.dev] = true
				if iv.safe < nb {
					nb = iv.safe
				}
			}
		}
		if nb != b {
			changed = true
		}
		if nb > 0 && nb < n {
			set[nb] = true
		}
	}
	var sorted []int
	for b := range set {
		sorted = append(sorted, b)
	}
	sort.Ints(sorted)
	// a moved boundary may itself have landed in another interval: iterate to a fixpoint
	for _, b := range sorted {
		for _, iv := range ivs {
			if b >= iv.lo && b <= iv.hi {
				c2, _ := repair(n, sorted, ivs, hit)
				return c2, true
			}
		}
	}
	prev := 0
	for _, b := range sorted {
		chunks = append(chunks, b-prev)
		prev = b
	}
	chunks = append(chunks, n-prev)
	return chunks, changed
}

func runSched(src []byte, o popts, chunks []int, eofwd bool) presult {
	return parseWith(src, o, &schedReader{data: src, chunks: append([]int(nil), chunks...), eofwd: eofwd})
}

// onlyOffsetsDiffer: both parses succeeded and the trees are equal except for byte offsets.
func onlyOffsetsDiffer(a, b presult) bool {
	return a.err == "" && b.err == "" && a.pan == "" && b.pan == "" && a.file != nil && b.file != nil &&
		DumpNoOffsets(a.file) == DumpNoOffsets(b.file)
}

func attribute(src []byte, o popts, s sched, ref, got presult, refChunks []int) []string {
	// (a) only the EOF delivery differs, and only byte offsets are affected?
	if s.EOFWithData && onlyOffsetsDiffer(ref, got) && sameResult(ref, runSched(src, o, s.Chunks, false)) {
		return []string{"Dev_EOFWithDataFinalOffset"}
	}
	ivs := hotIntervals(src, o)
	if len(ivs) == 0 {
		return nil
	}
	hit := map[string]bool{}
	sRep, sCh := repair(len(src), boundaries(len(src), s.Chunks), ivs, hit)
	wRep, wCh := repair(len(src), boundaries(len(src), refChunks), ivs, hit)
	if !sCh && !wCh {
		return nil
	}
	ref2 := ref
	if wCh {
		ref2 = runSched(src, o, wRep, false)
	}
	var devs []string
	if sameResult(ref2, runSched(src, o, sRep, s.EOFWithData)) {
	} else if s.EOFWithData && sameResult(ref2, runSched(src, o, sRep, false)) {
		devs = append(devs, "Dev_EOFWithDataFinalOffset")
	} else {
		return nil
	}
	for d := range hit {
		devs = append(devs, d)
	}
	sort.Strings(devs)
	return devs
}

// recReader records the sizes of the reads served by the reference reader.
type recReader struct {
	r      io.Reader
	chunks []int
}

func (r *recReader) Read(p []byte) (int, error) {
	n, err := r.r.Read(p)
	if n > 0 {
		r.chunks = append(r.chunks, n)
	}
	return n, err
}

// ---------------------------------------------------------------- running schedules on one program

func runScheds(st *c07stats, src []byte, o popts, scheds []sched, tag string) {
	rr := &recReader{r: bytes.NewReader(src)}
	ref := parseWith(src, o, rr)
	st.Programs++
	st.Evals++
	for _, s := range scheds {
		rd := &schedReader{data: src, chunks: append([]int(nil), s.Chunks...), eofwd: s.EOFWithData}
		got := parseWith(src, o, rd)
		st.Evals++
		if rd.reads > 2 {
			st.Nontrivial++
		}
		if sameResult(ref, got) {
			if st.Sample == nil && rd.reads > 3 && len(src) < 80 {
				st.Sample = map[string]any{"src": hlib.Latin1(src), "opts": o, "sched": s, "reads": rd.reads, "result": describe(ref), "origin": tag}
			}
			continue
		}
		st.MisCount++
		devs := attribute(src, o, s, ref, got, rr.chunks)
		key := strings.Join(devs, "+")
		st.ByDev[key]++
		// keep a few samples per attribution class, everything unattributed (capped)
		if (key != "" && st.ByDev[key] > 2) || len(st.Mismatches) >= 30 {
			continue
		}
		m := mismatch{Src: hlib.Latin1(src), Opts: o, Sched: s, Ref: describe(ref), Got: describe(got), Devs: devs, Tag: tag}
		if ref.file != nil && got.file != nil && ref.err == "" && got.err == "" {
			m.DiffA, m.DiffB = firstDiff(Dump(ref.file), Dump(got.file))
		}
		if m.Devs == nil {
			m.Devs = []string{}
		}
		st.Mismatches = append(st.Mismatches, m)
	}
}

func ones(n int) []int {
	c := make([]int, n)
	for i := range c {
		c[i] = 1
	}
	return c
}

// genericScheds: the schedules the property names, for a program of n bytes.
func genericScheds(n int, rng *rand.Rand, nrandom int, maxSplits int, interesting []int) []sched {
	var out []sched
	if n == 0 {
		return []sched{{Name: "empty-zero", Chunks: []int{0}}, {Name: "empty", Chunks: nil, EOFWithData: false}}
	}
	out = append(out, sched{Name: "onebyte", Chunks: ones(n)})
	out = append(out, sched{Name: "onebyte-dataerr", Chunks: ones(n), EOFWithData: true})
	out = append(out, sched{Name: "whole-dataerr", Chunks: []int{n}, EOFWithData: true})
	// a (0, nil) read before every byte
	z := make([]int, 0, 2*n+1)
	for range n {
		z = append(z, 0, 1)
	}
	z = append(z, 0)
	out = append(out, sched{Name: "onebyte-zeros", Chunks: z})
	// two-byte chunks, both phases; three-byte chunks
	for _, ph := range []int{0, 1} {
		var c []int
		if ph == 1 {
			c = append(c, 1)
		}
		for k := ph; k < n; k += 2 {
			c = append(c, 2)
		}
		out = append(out, sched{Name: fmt.Sprintf("twobyte-%d", ph), Chunks: c})
	}
	// every single split point (or a sample when the program is long)
	splits := make([]int, 0, n)
	if n-1 <= maxSplits {
		for k := 1; k < n; k++ {
			splits = append(splits, k)
		}
	} else {
		seen := map[int]bool{}
		for _, k := range interesting {
			for d := -1; d <= 2; d++ {
				if k+d >= 1 && k+d < n && !seen[k+d] && len(splits) < maxSplits {
					seen[k+d] = true
					splits = append(splits, k+d)
				}
			}
		}
		for len(splits) < maxSplits {
			k := 1 + rng.Intn(n-1)
			if !seen[k] {
				seen[k] = true
				splits = append(splits, k)
			}
		}
	}
	for _, k := range splits {
		out = append(out, sched{Name: fmt.Sprintf("split-%d", k), Chunks: []int{k, n - k}})
	}
	// seeded random chunkings: small chunks (1..4), occasionally empty reads
	for i := range nrandom {
		var c []int
		left := n
		maxc := 1 + rng.Intn(4)
		for left > 0 {
			k := 1 + rng.Intn(maxc)
			if rng.Intn(12) == 0 {
				c = append(c, 0)
			}
			if k > left {
				k = left
			}
			c = append(c, k)
			left -= k
		}
		out = append(out, sched{Name: fmt.Sprintf("random-%d", i), Chunks: c, EOFWithData: rng.Intn(2) == 0})
	}
	return out
}

// bytes after which the lexer is known to look ahead: split points worth trying in long programs
func interestingOffsets(src []byte) []int {
	var out []int
	for i, b := range src {
		switch b {
		case '\\', '\r', '<', '@', '?', '*', '+', '!', '=', '~', '^', '$', '#', '\t', '`', 0:
			out = append(out, i+1)
		default:
			if b >= 0x80 {
				out = append(out, i+1)
			}
		}
	}
	return out
}

// ---------------------------------------------------------------- engine: chunksrc

type chunkSrcVec struct {
	Src       string   `json:"src"` // latin1
	Langs     []string `json:"langs"`
	KCs       []bool   `json:"kcs"`
	StopAts   []string `json:"stopats"`
	Seed      int64    `json:"seed"`
	NRandom   int      `json:"nrandom"`
	MaxSplits int      `json:"max_splits"`
	Tag       string   `json:"tag"`
}

func chunkSrcEngine(raw json.RawMessage, _ []string) (any, error) {
	var v chunkSrcVec
	if err := json.Unmarshal(raw, &v); err != nil {
		return nil, err
	}
	src := hlib.Unlatin1(v.Src)
	st := newStats()
	if len(v.StopAts) == 0 {
		v.StopAts = []string{""}
	}
	if v.MaxSplits == 0 {
		v.MaxSplits = 200
	}
	rng := rand.New(rand.NewSource(v.Seed))
	scheds := genericScheds(len(src), rng, v.NRandom, v.MaxSplits, interestingOffsets(src))
	for _, l := range v.Langs {
		for _, kc := range v.KCs {
			for _, sa := range v.StopAts {
				runScheds(st, src, popts{Lang: l, KC: kc, StopAt: sa}, scheds, v.Tag)
			}
		}
	}
	return st, nil
}

// ---------------------------------------------------------------- engine: chunkvec

type template struct {
	M      string   `json:"m"`
	Pre    string   `json:"pre"`
	Post   string   `json:"post"`
	Langs  []string `json:"langs"`
	StopAt string   `json:"stopat"`
}

type templateFile struct {
	Templates []template       `json:"templates"`
	Bytes     map[string][]int `json:"bytes"`
}

var tplCache *templateFile

func loadTemplates(path string) (*templateFile, error) {
	if tplCache != nil {
		return tplCache, nil
	}
	b, err := os.ReadFile(path)
	if err != nil {
		return nil, err
	}
	var tf templateFile
	if err := json.Unmarshal(b, &tf); err != nil {
		return nil, err
	}
	tplCache = &tf
	return tplCache, nil
}

type chunkVec struct {
	Mode   string    `json:"mode"`
	Src    []string  `json:"src"`
	Scheds [][][]any `json:"scheds"` // each schedule: [[n, eofFlag], ...] as emitted by TLC
	Seed     int64 `json:"seed"`
	AllLangs bool  `json:"all_langs"`
	Only     *struct {  // replay restriction
		Template int `json:"template"`
	} `json:"only"`
}

func chunkVecEngine(raw json.RawMessage, args []string) (any, error) {
	if len(args) < 1 {
		return nil, fmt.Errorf("chunkvec needs the template file")
	}
	tf, err := loadTemplates(args[0])
	if err != nil {
		return nil, err
	}
	var v chunkVec
	if err := json.Unmarshal(raw, &v); err != nil {
		return nil, err
	}
	var win []byte
	for _, c := range v.Src {
		bs, ok := tf.Bytes[c]
		if !ok {
			return nil, fmt.Errorf("unknown byte class %q", c)
		}
		for _, b := range bs {
			win = append(win, byte(b))
		}
	}
	st := newStats()
	rng := rand.New(rand.NewSource(v.Seed))
	for ti, t := range tf.Templates {
		if t.M != v.Mode {
			continue
		}
		if v.Only != nil && v.Only.Template != ti {
			continue
		}
		prog := append(append([]byte(t.Pre), win...), []byte(t.Post)...)
		npre, nwin, npost := len(t.Pre), len(win), len(t.Post)
		var scheds []sched
		for si, ms := range v.Scheds {
			var sizes []int
			eofwd := false
			for _, e := range ms {
				n := int(e[0].(float64))
				fl := e[1].(bool)
				if fl {
					eofwd = n > 0
					if n == 0 {
						continue // the separate (0, EOF): implied by eofwd = false
					}
				}
				sizes = append(sizes, n)
			}
			// E1: prefix | window chunks | suffix, each its own read
			var c1 []int
			if npre > 0 {
				c1 = append(c1, npre)
			}
			c1 = append(c1, sizes...)
			if npost > 0 {
				c1 = append(c1, npost)
			}
			scheds = append(scheds, sched{Name: fmt.Sprintf("model-%d-sep", si), Chunks: c1, EOFWithData: eofwd})
			// E2: prefix glued to the first data chunk, suffix to the last: only the window's
			// internal boundaries remain
			c2 := append([]int(nil), sizes...)
			for i := range c2 {
				if c2[i] > 0 {
					c2[i] += npre
					break
				}
			}
			for i := len(c2) - 1; i >= 0; i-- {
				if c2[i] > 0 {
					c2[i] += npost
					break
				}
			}
			if npre+npost > 0 {
				scheds = append(scheds, sched{Name: fmt.Sprintf("model-%d-glued", si), Chunks: c2, EOFWithData: eofwd})
			}
		}
		gen := genericScheds(len(prog), rng, 4, 64, nil)
		tag := fmt.Sprintf("template %d %q+W+%q", ti, t.Pre, t.Post)
		rot := (int(v.Seed) + ti) % len(t.Langs)
		for li, l := range t.Langs {
			if !v.AllLangs && li != 0 && li != rot {
				// quick tier: the template's primary variant plus one rotating variant
				continue
			}
			all := scheds
			if li == rot {
				// the property's generic schedules: one (rotating) variant per template program
				all = append(append([]sched(nil), scheds...), gen...)
			}
			runScheds(st, prog, popts{Lang: l, KC: true, StopAt: t.StopAt}, all, tag)
		}
		// E4: the same program pushed against the 1 KiB read buffer boundary: padding of
		// blanks so that the boundary falls at every position of the window. Schedules:
		// one read per KiB (what bytes.Reader does, = the reference), a fresh window after
		// the padding+prefix, and single bytes.
		for j := 0; j <= nwin; j++ {
			padn := 1024 - npre - j
			if padn < 0 {
				continue
			}
			padded := append(bytes.Repeat([]byte{' '}, padn), prog...)
			ps := []sched{
				{Name: fmt.Sprintf("pad-%d-fresh", j), Chunks: []int{padn + npre, nwin + npost}},
				{Name: fmt.Sprintf("pad-%d-tail1", j), Chunks: append([]int{padn + npre}, ones(nwin+npost)...)},
				{Name: fmt.Sprintf("pad-%d-dataerr", j), Chunks: []int{1024, len(padded) - 1024}, EOFWithData: true},
			}
			l := t.Langs[(j+ti)%len(t.Langs)]
			runScheds(st, padded, popts{Lang: l, KC: true, StopAt: t.StopAt}, ps, tag+" padded")
		}
	}
	return st, nil
}

// ---------------------------------------------------------------- engine: chunkone (replay)

type chunkOneVec struct {
	Src   string `json:"src"`
	Opts  popts  `json:"opts"`
	Sched sched  `json:"sched"`
}

func chunkOneEngine(raw json.RawMessage, _ []string) (any, error) {
	var v chunkOneVec
	if err := json.Unmarshal(raw, &v); err != nil {
		return nil, err
	}
	st := newStats()
	runScheds(st, hlib.Unlatin1(v.Src), v.Opts, []sched{v.Sched}, "replay")
	return st, nil
}
