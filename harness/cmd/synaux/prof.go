package main

import (
	"os"
	"os/signal"
	"runtime/pprof"
)

// Development aid: VERIF_PPROF=<file> writes a CPU profile (stopped on SIGTERM or via stopProf).
func init() {
	if p := os.Getenv("VERIF_PPROF"); p != "" {
		f, err := os.Create(p)
		if err == nil {
			pprof.StartCPUProfile(f)
			c := make(chan os.Signal, 1)
			signal.Notify(c, os.Interrupt)
			go func() { <-c; pprof.StopCPUProfile(); f.Close(); os.Exit(0) }()
		}
	}
}
