// Command synaux: harness binary for C07 (chunked readers), C14 (Walk/Preorder) and
// C15 (typedjson), plus the shared "corpus" engine that extracts shell sources from the
// repository's own test tables.
package main

import "verif/harness/hlib"

func main() { hlib.Main() }
