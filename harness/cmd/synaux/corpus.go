package main

import (
	"encoding/json"
	"go/ast"
	"go/parser"
	"go/token"
	"path/filepath"
	"strconv"
	"strings"
	"verif/harness/hlib"

	"mvdan.cc/sh/v3/syntax"
)

// Engine "corpus": extract every string literal (and constant concatenation of literals)
// from Go test files of the repository; report for each which language variants parse it.
// Vector: {"repo": "/repo", "files": ["syntax/filetests_test.go", ...], "maxlen": n}
// Result: {"sources": [{"s": latin1, "ok": ["bash", ...]}], "files": {name: count}}
func init() { hlib.Register("corpus", corpusEngine) }

type corpusVec struct {
	Repo   string   `json:"repo"`
	Files  []string `json:"files"`
	MaxLen int      `json:"maxlen"`
	Extra  []string `json:"extra"` // latin1 hand-written sources classified the same way
}

func constString(e ast.Expr) (string, bool) {
	switch e := e.(type) {
	case *ast.BasicLit:
		if e.Kind != token.STRING {
			return "", false
		}
		s, err := strconv.Unquote(e.Value)
		return s, err == nil
	case *ast.ParenExpr:
		return constString(e.X)
	case *ast.BinaryExpr:
		if e.Op != token.ADD {
			return "", false
		}
		a, ok1 := constString(e.X)
		b, ok2 := constString(e.Y)
		return a + b, ok1 && ok2
	}
	return "", false
}

func parsesIn(src string, lang string) bool {
	p := syntax.NewParser(syntax.Variant(hlib.LangOf(lang)), syntax.KeepComments(true))
	_, err := p.Parse(strings.NewReader(src), "")
	return err == nil
}

func corpusEngine(raw json.RawMessage, _ []string) (any, error) {
	var v corpusVec
	if err := json.Unmarshal(raw, &v); err != nil {
		return nil, err
	}
	if v.MaxLen == 0 {
		v.MaxLen = 4096
	}
	seen := map[string]bool{}
	var order []string
	counts := map[string]int{}
	add := func(s, file string) {
		if len(s) == 0 || len(s) > v.MaxLen || seen[s] {
			return
		}
		seen[s] = true
		order = append(order, s)
		counts[file]++
	}
	for _, rel := range v.Files {
		fset := token.NewFileSet()
		f, err := parser.ParseFile(fset, filepath.Join(v.Repo, rel), nil, parser.SkipObjectResolution)
		if err != nil {
			return nil, err
		}
		ast.Inspect(f, func(n ast.Node) bool {
			switch n := n.(type) {
			case *ast.ImportSpec:
				return false
			case *ast.Field:
				// skip struct tags
				if n.Tag != nil {
					for _, nm := range n.Names {
						_ = nm
					}
				}
				return true
			case *ast.BinaryExpr:
				if s, ok := constString(n); ok {
					add(s, rel)
					return false
				}
			case *ast.BasicLit:
				if s, ok := constString(n); ok {
					add(s, rel)
				}
			}
			return true
		})
	}
	for _, s := range v.Extra {
		add(string(hlib.Unlatin1(s)), "extra")
	}
	type srcRec struct {
		S  string   `json:"s"`
		OK []string `json:"ok"`
	}
	out := make([]srcRec, 0, len(order))
	for _, s := range order {
		rec := srcRec{S: hlib.Latin1([]byte(s)), OK: []string{}}
		for _, l := range allLangs {
			if safeParses(s, l) {
				rec.OK = append(rec.OK, l)
			}
		}
		out = append(out, rec)
	}
	return map[string]any{"sources": out, "files": counts}, nil
}

func safeParses(s, l string) (ok bool) {
	defer func() {
		if r := recover(); r != nil {
			ok = false
		}
	}()
	return parsesIn(s, l)
}
