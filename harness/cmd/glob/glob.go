package main

import (
	"encoding/json"
	"errors"
	"fmt"
	"os"
	"regexp"
	"sync"

	"verif/harness/hlib"

	"mvdan.cc/sh/v3/pattern"
)

// Engine "glob" (C17, C18): one vector = one pattern string + one mode set.
//
//	in : {"pat": text, "mode": ["Filenames",...], "subj": "<key>", "extra": [text...], "meta": bool}
//	args: path of a JSON file {"<key>": [text, ...]} holding the subject universes emitted by the spec
//	out: {"err": "", "errkind": ""|"syntax"|"negext"|"other", "rx": "...", "compile_err": "",
//	      "acc": [indices (1-based) of accepted subjects], "xacc": [bool per extra subject],
//	      and with meta: "hasmeta", "quoted", "q_hasmeta", "q_err", "q_acc", "q_xacc"}
//
// The engine does nothing but call the real functions and regexp.MatchString.
func init() { hlib.Register("glob", globEngine) }

var modeBits = map[string]pattern.Mode{
	"Shortest":          pattern.Shortest,
	"Filenames":         pattern.Filenames,
	"EntireString":      pattern.EntireString,
	"NoGlobCase":        pattern.NoGlobCase,
	"NoGlobStar":        pattern.NoGlobStar,
	"GlobLeadingDot":    pattern.GlobLeadingDot,
	"ExtendedOperators": pattern.ExtendedOperators,
}

type globVec struct {
	Pat   []any    `json:"pat"`
	Mode  []string `json:"mode"`
	Subj  string   `json:"subj"`
	Extra [][]any  `json:"extra"`
	Meta  bool     `json:"meta"`
}

var (
	subjOnce sync.Once
	subjTab  map[string][]string
	subjErr  error
)

func loadSubjects(args []string) (map[string][]string, error) {
	subjOnce.Do(func() {
		if len(args) < 1 {
			subjErr = fmt.Errorf("glob: missing subjects file argument")
			return
		}
		data, err := os.ReadFile(args[0])
		if err != nil {
			subjErr = err
			return
		}
		var raw map[string][][]any
		if err := json.Unmarshal(data, &raw); err != nil {
			subjErr = err
			return
		}
		subjTab = map[string][]string{}
		for k, lst := range raw {
			ss := make([]string, len(lst))
			for i, t := range lst {
				ss[i] = hlib.Text(t)
			}
			subjTab[k] = ss
		}
	})
	return subjTab, subjErr
}

type langRes struct {
	Err        string `json:"err"`
	ErrKind    string `json:"errkind"`
	Rx         string `json:"rx"`
	CompileErr string `json:"compile_err"`
	Acc        []int  `json:"acc"`
	XAcc       []bool `json:"xacc"`
}

// language computes the set of accepted subjects of pattern.Regexp(pat, mode).
func language(pat string, mode pattern.Mode, subjects, extra []string) langRes {
	r := langRes{Acc: []int{}, XAcc: []bool{}}
	expr, err := pattern.Regexp(pat, mode)
	if err != nil {
		r.Err = err.Error()
		var se *pattern.SyntaxError
		var ne *pattern.NegExtGlobError
		switch {
		case errors.As(err, &se):
			r.ErrKind = "syntax"
		case errors.As(err, &ne):
			r.ErrKind = "negext"
		default:
			r.ErrKind = "other"
		}
		return r
	}
	r.Rx = expr
	rx, err := regexp.Compile(expr)
	if err != nil {
		r.CompileErr = err.Error()
		return r
	}
	for i, s := range subjects {
		if rx.MatchString(s) {
			r.Acc = append(r.Acc, i+1)
		}
	}
	for _, s := range extra {
		r.XAcc = append(r.XAcc, rx.MatchString(s))
	}
	return r
}

func globEngine(raw json.RawMessage, args []string) (any, error) {
	var v globVec
	if err := json.Unmarshal(raw, &v); err != nil {
		return nil, err
	}
	tab, err := loadSubjects(args)
	if err != nil {
		return nil, err
	}
	subjects, ok := tab[v.Subj]
	if !ok {
		return nil, fmt.Errorf("glob: unknown subject universe %q", v.Subj)
	}
	var mode pattern.Mode
	for _, m := range v.Mode {
		b, ok := modeBits[m]
		if !ok {
			return nil, fmt.Errorf("glob: unknown mode %q", m)
		}
		mode |= b
	}
	pat := hlib.Text(v.Pat)
	extra := make([]string, len(v.Extra))
	for i, t := range v.Extra {
		extra[i] = hlib.Text(t)
	}
	lr := language(pat, mode, subjects, extra)
	res := map[string]any{"err": lr.Err, "errkind": lr.ErrKind, "rx": lr.Rx, "compile_err": lr.CompileErr,
		"acc": lr.Acc, "xacc": lr.XAcc}
	if v.Subj == "unanch" && lr.Err == "" && lr.CompileErr == "" {
		// the same pattern without EntireString: the expression is used to search
		sr := language(pat, mode&^pattern.EntireString, subjects, nil)
		res["s_err"], res["s_compile_err"], res["s_rx"], res["s_acc"] = sr.Err, sr.CompileErr, sr.Rx, sr.Acc
	}
	if v.Meta {
		res["hasmeta"] = pattern.HasMeta(pat, mode)
		q := pattern.QuoteMeta(pat, mode)
		res["quoted"] = hlib.Untext(q)
		res["q_hasmeta"] = pattern.HasMeta(q, mode)
		qr := language(q, mode, subjects, extra)
		res["q_err"] = qr.Err
		res["q_compile_err"] = qr.CompileErr
		res["q_acc"] = qr.Acc
		res["q_xacc"] = qr.XAcc
	}
	return res, nil
}
