// Command glob: harness binary for the C17/C18 engines (pattern.Regexp, QuoteMeta, HasMeta)
// plus the generic "interp" engine from hlib.
package main

import "verif/harness/hlib"

func main() { hlib.Main() }
