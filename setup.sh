#!/bin/sh
# Run once after a fresh restore, offline. Nothing here depends on /repo's contents beyond
# the module graph: it only warms the Go build cache for the harness and checks the tools.
set -e
cd "$(dirname "$0")"
export GOFLAGS=-mod=mod GOPROXY=off
mkdir -p .build evidence
cp /repo/go.sum harness/go.sum
(cd harness && for d in cmd/*/; do go build -tags verif -o ../.build/$(basename $d) ./$d; done)
command -v tlc >/dev/null
command -v bash >/dev/null
echo setup ok
